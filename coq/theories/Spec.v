(* Declarative specifications (short enough to audit by eye).  Nothing here refers to the
   model's parser, push, hash or query functions: only to list primitives, the component
   types, and the split-and-classify specification [spec_comps] of Core.v. *)
From Coq Require Import List NArith Bool Lia.
Import ListNotations.
From TP Require Import Core Path Win.
Open Scope N_scope.

(* ---------------- Unix ---------------- *)
(* split on '/', drop empty segments and every "." that is not the first segment of a
   relative path, classify "..", keep a leading '/' as Root *)
Definition usep_s (b : byte) : bool := b =? 47.
Definition ucomps (l : list byte) : list comp := spec_comps usep_s true l.

(* ---------------- Windows prefix grammar ---------------- *)
Definition s_sep_any (b : byte) : bool := (b =? 92) || (b =? 47).
Definition s_wsep (norm : bool) (b : byte) : bool := (b =? 92) || (norm && (b =? 47)).
(* a path is normalised unless it starts with exactly \\?\ *)
Definition s_norm (l : list byte) : bool :=
  match l with
  | a :: b :: c :: d :: _ => negb ((a =? 92) && (b =? 92) && (c =? 63) && (d =? 92))
  | _ => true
  end.
Definition s_alpha (d : byte) : bool := ((65 <=? d) && (d <=? 90)) || ((97 <=? d) && (d <=? 122)).
Definition s_upper (d : byte) : byte := if (97 <=? d) && (d <=? 122) then d - 32 else d.
(* longest separator-free leading run, and what follows *)
Definition take_name (sep : byte -> bool) (l : list byte) : list byte * list byte := span_nsep sep l.
(* server [sep] share : server non-empty, at most one separator, share possibly empty *)
Definition unc_parts (sep : byte -> bool) (l : list byte) : option (list byte * list byte * list byte) :=
  let (srv, r1) := take_name sep l in
  match srv with
  | [] => None
  | _ => let r2 := match r1 with b :: t => if sep b then t else r1 | [] => r1 end in
         let (sh, r3) := take_name sep r2 in Some (srv, sh, r3)
  end.
Definition starts_unc_lit (l : list byte) : option (list byte) :=
  match l with
  | a :: b :: c :: t => if (a =? 85) && (b =? 78) && (c =? 67) then Some t else None
  | _ => None
  end.
Definition disk_at (l : list byte) : option (byte * list byte) :=
  match l with
  | d :: c :: t => if s_alpha d && (c =? 58) then Some (s_upper d, t) else None
  | _ => None
  end.

(* the six kinds in their documented priority; result = (kind, what follows the prefix) *)
Definition wprefix_grammar (l : list byte) : option (wprefix * list byte) :=
  let norm := s_norm l in
  let sep := s_wsep norm in
  let unc :=            (* \\server\share *)
    match l with
    | a :: b :: t => if s_sep_any a && s_sep_any b then
                       match unc_parts s_sep_any t with Some (srv, sh, r) => Some (UNC srv sh, r) | None => None end
                     else None
    | _ => None
    end in
  match l with
  | a :: b :: c :: d :: rest =>
      if s_sep_any a && s_sep_any b && s_sep_any d then
        if c =? 63 then            (* \\?\ header, either slash *)
          let vunc := match starts_unc_lit rest with
                      | Some (s :: t) => if sep s then
                                           match unc_parts sep t with
                                           | Some (srv, sh, r) => Some (VerbatimUNC srv sh, r)
                                           | None => None end
                                         else None
                      | _ => None
                      end in
          match vunc with
          | Some x => Some x
          | None =>
              match disk_at rest with
              | Some (dl, r) => Some (VerbatimDisk dl, r)
              | None =>
                  let (x, r) := take_name sep rest in
                  match x, r with
                  | _ :: _, _ => Some (Verbatim x, r)
                  | [], s :: _ => if sep s then Some (Verbatim [], rest) else unc
                  | [], [] => unc
                  end
              end
          end
        else if c =? 46 then       (* \\.\ header *)
          let (x, r) := take_name s_sep_any rest in
          match x with _ :: _ => Some (DeviceNS x, r) | [] => unc end
        else unc
      else match unc with Some x => Some x | None => match disk_at l with Some (dl, r) => Some (Disk dl, r) | None => None end end
  | _ => match unc with Some x => Some x | None => match disk_at l with Some (dl, r) => Some (Disk dl, r) | None => None end end
  end.

(* the Windows decomposition: [prefix] then root / "." / ".." / names of the rest *)
Definition wspec (l : list byte) : list wcomp :=
  let norm := s_norm l in
  match wprefix_grammar l with
  | Some (k, rest) => WPrefix (firstn (length l - length rest) l) k :: map WC (spec_comps (s_wsep norm) norm rest)
  | None => map WC (spec_comps (s_wsep norm) norm l)
  end.

(* ---------------- component-level notions shared by both encodings ---------------- *)
Definition uspec (l : list byte) : list wcomp := map WC (ucomps l).
Definition k_is_prefix (c : wcomp) := match c with WPrefix _ _ => true | _ => false end.
Definition k_is_root (c : wcomp) := match c with WC Root => true | _ => false end.
Definition k_is_normal (c : wcomp) := match c with WC (Normal _) => true | _ => false end.
Definition k_is_cur (c : wcomp) := match c with WC Cur => true | _ => false end.
Definition k_is_parent (c : wcomp) := match c with WC Parent => true | _ => false end.
Definition k_name (c : wcomp) : list byte := match c with WC (Normal n) => n | _ => [] end.
Definition removable (c : wcomp) : bool := k_is_normal c || k_is_cur c || k_is_parent c.
Definition last_w (l : list wcomp) : option wcomp := match rev l with c :: _ => Some c | [] => None end.
Fixpoint wlist_eqb (a b : list wcomp) : bool :=
  match a, b with
  | [], [] => true
  | x :: a', y :: b' => wcomp_eqb x y && wlist_eqb a' b'
  | _, _ => false
  end.
Fixpoint wlist_prefix (p l : list wcomp) : bool :=       (* p is a leading run of l *)
  match p, l with
  | [], _ => true
  | x :: p', y :: l' => wcomp_eqb x y && wlist_prefix p' l'
  | _ :: _, [] => false
  end.
Definition wlist_suffix (p l : list wcomp) : bool := wlist_prefix (rev p) (rev l).
Fixpoint wlist_cmp (a b : list wcomp) : comparison :=    (* lexicographic on the component order *)
  match a, b with
  | [], [] => Eq
  | [], _ :: _ => Lt
  | _ :: _, [] => Gt
  | x :: a', y :: b' => match wcomp_cmp x y with Eq => wlist_cmp a' b' | c => c end
  end.
Fixpoint bytes_prefix (p l : list byte) : bool :=
  match p, l with
  | [], _ => true
  | x :: p', y :: l' => (x =? y) && bytes_prefix p' l'
  | _ :: _, [] => false
  end.

(* documented forbidden bytes *)
Definition forbidden_unix : list byte := [47; 0].
Definition forbidden_windows : list byte := [92; 47; 58; 63; 42; 34; 62; 60; 124; 0].
Definition name_ok (tbl n : list byte) : bool := forallb (fun b => negb (mem_b b tbl)) n.
Definition comp_ok (tbl : list byte) (c : wcomp) : bool := match c with WC (Normal n) => name_ok tbl n | _ => true end.

(* "well-formed" for the properties that quantify over well-formed paths (C04 C08 C10 C11 C12):
   every name is a valid file name of the encoding, a UNC share is present, and a non-disk prefix
   is followed by a separator or by nothing (a verbatim disk is not glued to a name) *)
Definition wf_comps (tbl : list byte) (cs : list wcomp) : bool :=
  forallb (comp_ok tbl) cs &&
  match cs with
  | WPrefix _ k :: rest =>
      match k with
      | UNC _ [] | VerbatimUNC _ [] => false
      | Disk _ => true
      | _ => match rest with [] => true | c :: _ => k_is_root c end
      end
  | _ => true
  end.

(* ... and the decomposition does not depend on the spelling: written out with single primary
   separators the components read back as themselves (this excludes look-alikes such as
   \\?\UNC\\a, whose prefix is Verbatim "UNC" but which re-reads as a verbatim UNC prefix) *)
Fixpoint intercalate (sep : list byte) (l : list (list byte)) : list byte :=
  match l with [] => [] | [x] => x | x :: r => x ++ sep ++ intercalate sep r end.
Definition render_body (sep : byte) (cs : list wcomp) : list byte :=
  match cs with
  | WC Root :: r => sep :: intercalate [sep] (map wc_bytes r)
  | _ => intercalate [sep] (map wc_bytes cs)
  end.
Definition render (sep : byte) (cs : list wcomp) : list byte :=
  match cs with
  | WPrefix raw _ :: r => raw ++ render_body sep r
  | _ => render_body sep cs
  end.
Definition wf_windows (p : list byte) : bool :=
  let cs := wspec p in
  wf_comps forbidden_windows cs && wlist_eqb (wspec (render 92 cs)) cs.
Definition wf_unix (p : list byte) : bool := wf_comps forbidden_unix (uspec p).

(* C04: the first offending component of an untrusted path, scanning left to right with the
   count of normal components not yet cancelled by ".." *)
Fixpoint scan_spec (tbl : list byte) (cs : list wcomp) (depth : nat) : option cerr :=
  match cs with
  | [] => None
  | c :: r =>
      if k_is_prefix c then Some EPrefix
      else if k_is_root c then Some ERoot
      else if k_is_parent c then match depth with O => Some ETraversal | S d => scan_spec tbl r d end
      else if k_is_normal c then (if name_ok tbl (k_name c) then scan_spec tbl r (S depth) else Some EInvalid)
      else scan_spec tbl r depth
  end.

(* C11: the lexical fold *)
Fixpoint nfold (cs acc_rev : list wcomp) : list wcomp :=
  match cs with
  | [] => rev acc_rev
  | c :: r =>
      if k_is_cur c then nfold r acc_rev
      else if k_is_parent c then
        match acc_rev with
        | x :: acc' => if k_is_normal x then nfold r acc' else nfold r acc_rev
        | [] => nfold r acc_rev
        end
      else nfold r (c :: acc_rev)
  end.

(* C12: stem / extension of a file name: split at the last dot, unless the name is ".." or
   its only dot is its first byte *)
Fixpoint last_dot (n : list byte) (i : nat) (best : option nat) : option nat :=
  match n with
  | [] => best
  | b :: r => last_dot r (S i) (if b =? 46 then Some i else best)
  end.
Definition split_name (n : list byte) : list byte * option (list byte) :=
  if beq_list n [46; 46] then (n, None)
  else match last_dot n O None with
       | None => (n, None)
       | Some O => (n, None)
       | Some i => (firstn i n, Some (skipn (S i) n))
       end.

(* ---------------- C08: the documented joining rules (Windows) ---------------- *)
Definition removelast_w (l : list wcomp) : list wcomp := rev (tl (rev l)).
Definition sp_prefix (l : list byte) : option (list byte * wprefix) :=
  match wspec l with WPrefix raw k :: _ => Some (raw, k) | _ => None end.
Definition sp_has_prefix (l : list byte) : bool := match sp_prefix l with Some _ => true | None => false end.
Definition sp_prefix_raw (l : list byte) : list byte := match sp_prefix l with Some (raw, _) => raw | None => [] end.
Definition k_verbatim (k : wprefix) : bool :=
  match k with Verbatim _ | VerbatimUNC _ _ | VerbatimDisk _ => true | _ => false end.
Definition sp_verbatim (l : list byte) : bool := match sp_prefix l with Some (_, k) => k_verbatim k | None => false end.
Definition sp_rooted (l : list byte) : bool := match wspec l with WC Root :: _ => true | _ => false end.
Definition sp_bare_drive (l : list byte) : bool := match wspec l with [WPrefix _ (Disk _)] => true | _ => false end.
Definition ends_in_sep (l : list byte) : bool := match rev l with b :: _ => s_sep_any b | [] => false end.
(* joining onto a verbatim-prefixed path works on components: "." is dropped, ".." cancels a
   preceding normal component (never the root or the prefix), a root keeps only the prefix *)
Definition vstep (acc : list wcomp) (c : wcomp) : list wcomp :=
  if k_is_cur c then acc
  else if k_is_parent c then
    match last_w acc with Some x => if k_is_normal x then removelast_w acc else acc | None => acc end
  else if k_is_root c then firstn 1 acc ++ [c]
  else acc ++ [c].
(* ... and the result is written out with single primary separators *)
Fixpoint vrender (cs : list wcomp) (need_sep : bool) : list byte :=
  match cs with
  | [] => []
  | c :: r =>
      (if need_sep && negb (k_is_root c) then [92] else []) ++ wc_bytes c ++
      vrender r (match c with WC Root => false | WPrefix _ (Disk _) => false | _ => true end)
  end.
Definition join_spec (a b : list byte) : list byte :=
  match b with
  | [] => a                                                     (* an empty b changes nothing *)
  | _ =>
      if sp_has_prefix b then b                                 (* b has a prefix: b itself *)
      else if sp_verbatim a then vrender (fold_left vstep (wspec b) (wspec a)) false
      else if sp_rooted b then sp_prefix_raw a ++ b             (* b rooted: a's prefix followed by b *)
      else if (match a with [] => true | _ => false end) || ends_in_sep a || sp_bare_drive a
           then a ++ b
           else a ++ 92 :: b                                    (* exactly one separator inserted *)
  end.
