(* Declarative specifications (short enough to audit by eye). *)
From Coq Require Import List NArith Bool Lia.
Import ListNotations.
From TP Require Import Core.
Open Scope N_scope.

(* Unix: split on '/', drop empty segments and every "." that is not the first
   segment of a relative path, classify "..", keep a leading '/' as Root.
   [spec_comps] is in Core.v; this is its Unix instance. *)
Definition usep_s (b : byte) : bool := b =? 47.
Definition ucomps (l : list byte) : list comp := spec_comps usep_s true l.

