(* C17 (validity predicate), C18 (bounds / fuel), C19 (UTF-8 validity and lossy decoding). *)
From Coq Require Import List NArith Bool Lia Arith PeanoNat.
Import ListNotations.
From TP Require Import Core CoreProofs CoreSched Deq Path Unix Win Spec Utf8 UnixProofs WinProofs C02Proofs C04Proofs.
Open Scope N_scope.

(* ---------------- C17 ---------------- *)
Lemma forallb_map_c {A B} (f : B -> bool) (g : A -> B) l : forallb f (map g l) = forallb (fun x => f (g x)) l.
Proof. induction l as [|x l IH]; cbn; [reflexivity|]. rewrite IH. reflexivity. Qed.
Lemma forallb_ext_c {A} (f g : A -> bool) l : (forall x, f x = g x) -> forallb f l = forallb g l.
Proof. intros H. induction l as [|x l IH]; cbn; [reflexivity|]. rewrite H, IH. reflexivity. Qed.
Lemma name_valid_ok tbl n : name_valid tbl n = name_ok tbl n. Proof. reflexivity. Qed.
Theorem u_is_valid_spec l : u_is_valid l = forallb (comp_ok forbidden_unix) (uspec l).
Proof.
  unfold u_is_valid, is_valid. fold (u_components l). rewrite u_components_spec. unfold uspec.
  rewrite forallb_map_c. apply forallb_ext_c. intros [| | |n]; reflexivity.
Qed.
Theorem w_is_valid_spec l : w_is_valid l = forallb (comp_ok forbidden_windows) (wspec l).
Proof.
  unfold w_is_valid, is_valid. fold (w_components l). rewrite w_components_wspec.
  apply forallb_ext_c. intros [raw k|[| | |n]]; reflexivity.
Qed.
(* prefixes, roots, "." and ".." are always valid; a name is valid iff it has no forbidden byte *)
Theorem comp_ok_spec tbl c :
  comp_ok tbl c = match c with WC (Normal n) => forallb (fun b => negb (mem_b b tbl)) n | _ => true end.
Proof. destruct c as [raw k|[| | |n]]; reflexivity. Qed.
(* the InvalidFilename verdict of the checked operations agrees with the predicate *)
Theorem u_scan_invalid_implies cs d : u_scan cs d = Some EInvalid -> forallb comp_valid_u cs = false.
Proof.
  intros H. destruct (u_scan_first_offender cs d EInvalid H) as (pre & c & post & -> & _ & Ho).
  rewrite forallb_app. cbn [forallb]. destruct c as [| | |n]; cbn in Ho; try discriminate.
  - destruct (d + cnt_normal pre - cnt_parent pre)%nat; discriminate.
  - cbn [comp_valid_u]. destruct (name_valid u_forbidden n); [discriminate|]. rewrite andb_false_r. reflexivity.
Qed.
Theorem u_valid_path_never_invalid cs d : forallb comp_valid_u cs = true -> u_scan cs d <> Some EInvalid.
Proof. intros H X. apply u_scan_invalid_implies in X. congruence. Qed.
Theorem u_invalid_path_rejected cs d : forallb comp_valid_u cs = false -> u_scan cs d <> None.
Proof. intros H X. apply u_scan_none_iff in X as (_ & X & _). congruence. Qed.

(* ---------------- C18: slices stay in bounds, loops stop by themselves ---------------- *)
(* Windows parser: in every reachable state the pre-parsed prefix lies inside the input, so
   &input[prefix.len()..] (next_front, remaining_without_prefix) cannot panic ... *)
Theorem w_reachable_prefix_in_bounds l sched :
  Forall (fun x => (plen (snd x) <= length (w_input (snd x)))%nat)
         (sched_run w_nextf w_nextb (w_init l) sched).
Proof.
  pose proof (deq_inv wstate wcomp wcs winv w_nextf w_nextb w_nextf_spec w_nextb_spec sched (w_init l) (winv_init l)) as F.
  eapply Forall_impl; [|exact F]. intros x [HP _]. unfold plen. destruct (w_prefix (snd x)) as [[raw k]|]; [|cbn; lia].
  destruct HP as (_ & _ & H & _). exact H.
Qed.
(* ... and the length next_back truncates to (input.len() of the core + prefix_len) is within the input *)
Lemma parse_back_shorter is_sep norm (Hd : is_sep 46 = false) st l c l' :
  inv is_sep norm (st, l) = true -> parse_back is_sep norm st l = Some (c, l') -> (length l' <= length l)%nat.
Proof.
  intros HI E. pose proof (next_back_spec is_sep norm Hd (st, l) HI) as B. unfold next_back in B. cbn [fst snd] in B.
  rewrite E in B. destruct B as (_ & _ & (j & Hj)). cbn [fst snd] in Hj. rewrite Hj, app_length. lia.
Qed.
Theorem w_back_truncation_in_bounds s c l' : winv s ->
  parse_back (wsep (w_norm s)) (w_norm s) (w_st s) (skipn (plen s) (w_input s)) = Some (c, l') ->
  (length l' + plen s <= length (w_input s))%nat.
Proof.
  intros [HP HI] E. pose proof (parse_back_shorter _ _ (wsep_dot _) _ _ _ _ HI E) as H.
  unfold wcore, wrest in *. rewrite skipn_length in H.
  assert (plen s <= length (w_input s))%nat.
  { unfold plen. destruct (w_prefix s) as [[raw k]|]; [|cbn; lia]. destruct HP as (_ & _ & X & _). exact X. }
  lia.
Qed.
(* pop / set_extension truncate inside the buffer *)
Theorem u_pop_in_bounds p : (length (fst (u_pop p)) <= length p)%nat.
Proof.
  rewrite u_pop_spec. destruct (u_parent p) as [r|] eqn:E; cbn [fst]; [|lia].
  pose proof (u_parent_shorter p r E). lia.
Qed.
(* the checked join's counter is only decremented when positive: u_scan / w_scan match on S n *)

(* ---------------- C19: UTF-8 validity and lossy decoding ---------------- *)
Lemma utf8_step_pos l : l <> [] -> (0 < snd (utf8_step l))%nat.
Proof.
  destruct l as [|b r]; [congruence|]. intros _. unfold utf8_step.
  repeat match goal with
         | |- context [if ?x then _ else _] => destruct x
         | |- context [match ?x with _ => _ end] => destruct x
         end; cbn; lia.
Qed.
Lemma utf8_step_le l : (snd (utf8_step l) <= length l)%nat.
Proof.
  unfold utf8_step. destruct l as [|b r]; [cbn; lia|].
  repeat match goal with
         | |- context [if ?x then _ else _] => destruct x
         | |- context [match ?x with [] => _ | _ :: _ => _ end] => destruct x
         end; cbn; lia.
Qed.
(* valid UTF-8 decodes to itself *)
Lemma lossy_valid_fuel : forall fuel l, (length l <= fuel)%nat -> utf8_valid_fuel fuel l = true -> lossy_fuel fuel l = l.
Proof.
  induction fuel as [|f IH]; intros l Hl Hv.
  - destruct l; [reflexivity | cbn in Hl; lia].
  - destruct l as [|b r] eqn:El; [reflexivity|]. rewrite <- El in *. cbn [utf8_valid_fuel lossy_fuel] in *. rewrite El in Hv |- *. rewrite <- El in *.
    destruct (utf8_step l) as [ok n] eqn:Es. apply andb_true_iff in Hv as [Hok Hv]. subst ok.
    assert (Hn : (0 < n)%nat) by (pose proof (utf8_step_pos l); rewrite Es in H; apply H; rewrite El; discriminate).
    rewrite (IH (skipn n l)); [apply firstn_skipn | rewrite skipn_length; lia | exact Hv].
Qed.
(* validity does not depend on extra fuel *)
Lemma utf8_valid_fuel_mono : forall f l, (length l <= f)%nat -> utf8_valid_fuel (S f) l = utf8_valid_fuel f l.
Proof.
  induction f as [|f IH]; intros l Hl.
  - destruct l; [reflexivity | cbn in Hl; lia].
  - destruct l as [|b r] eqn:El; [reflexivity|]. rewrite <- El in *.
    change (utf8_valid_fuel (S (S f)) l) with (match l with [] => true | _ => let (ok, n) := utf8_step l in ok && utf8_valid_fuel (S f) (skipn n l) end).
    change (utf8_valid_fuel (S f) l) with (match l with [] => true | _ => let (ok, n) := utf8_step l in ok && utf8_valid_fuel f (skipn n l) end).
    rewrite El. rewrite <- El. destruct (utf8_step l) as [ok n] eqn:Es. f_equal.
    assert (Hn : (0 < n)%nat) by (pose proof (utf8_step_pos l); rewrite Es in H; apply H; rewrite El; discriminate).
    apply IH. rewrite skipn_length. lia.
Qed.
Theorem lossy_of_valid l : utf8_valid l = true -> lossy l = l.
Proof. unfold utf8_valid, lossy. apply lossy_valid_fuel. lia. Qed.
