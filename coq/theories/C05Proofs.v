(* C05: equality, ordering and hashing. *)
From Coq Require Import List NArith Bool Lia Arith PeanoNat.
Import ListNotations.
From TP Require Import Core CoreProofs CoreSched Path Unix Win Spec UnixProofs WinProofs.
Open Scope N_scope.

(* ---- byte strings ---- *)
Lemma cmp_bytes_refl a : cmp_bytes a a = Eq.
Proof. induction a as [|x a IH]; cbn; [reflexivity|]. rewrite N.compare_refl. exact IH. Qed.
Lemma cmp_bytes_eq a : forall b, cmp_bytes a b = Eq -> a = b.
Proof.
  induction a as [|x a IH]; intros [|y b] H; cbn in H; try discriminate; [reflexivity|].
  destruct (x ?= y) eqn:E; try discriminate. apply N.compare_eq in E. subst. f_equal. apply IH. exact H.
Qed.
Lemma cmp_bytes_antisym a : forall b, cmp_bytes b a = CompOpp (cmp_bytes a b).
Proof.
  induction a as [|x a IH]; intros [|y b]; cbn; try reflexivity.
  rewrite (N.compare_antisym x y). destruct (x ?= y); cbn; [apply IH | reflexivity | reflexivity].
Qed.
Lemma cmp_bytes_trans a : forall b c o, cmp_bytes a b = o -> cmp_bytes b c = o -> cmp_bytes a c = o.
Proof.
  induction a as [|x a IH]; intros [|y b] [|z c] o H1 H2; cbn in *; try congruence.
  destruct (x ?= y) eqn:E1; destruct (y ?= z) eqn:E2.
  - apply N.compare_eq in E1. apply N.compare_eq in E2. subst y z. rewrite N.compare_refl. eapply IH; eauto.
  - apply N.compare_eq in E1. subst y. rewrite E2. exact H2.
  - apply N.compare_eq in E1. subst y. rewrite E2. exact H2.
  - apply N.compare_eq in E2. subst z. rewrite E1. exact H1.
  - assert (Hlt : (x ?= z) = Lt) by (apply N.compare_lt_iff; apply N.compare_lt_iff in E1; apply N.compare_lt_iff in E2; eapply N.lt_trans; eauto).
    rewrite Hlt. exact H1.
  - congruence.
  - apply N.compare_eq in E2. subst z. rewrite E1. exact H1.
  - congruence.
  - assert (Hgt : (x ?= z) = Gt) by (apply N.compare_gt_iff; apply N.compare_gt_iff in E1; apply N.compare_gt_iff in E2; eapply N.lt_trans; eauto).
    rewrite Hgt. exact H1.
Qed.

(* ---- an abstract total order given by a comparison function ---- *)
Section Lex.
Variable A : Type.
Variable cmp : A -> A -> comparison.
Variable eqb : A -> A -> bool.
Hypothesis cmp_antisym : forall a b, cmp b a = CompOpp (cmp a b).
Hypothesis cmp_trans : forall a b c o, cmp a b = o -> cmp b c = o -> cmp a c = o.
Hypothesis cmp_eq_eqb : forall a b, cmp a b = Eq <-> eqb a b = true.
(* elements that compare Eq are interchangeable on either side *)
Hypothesis cmp_eq_l : forall a b c, cmp a b = Eq -> cmp a c = cmp b c.

Notation lcmp := (list_cmp_c A cmp).
Notation leqb := (list_eqb_c A eqb).
Lemma lcmp_antisym a : forall b, lcmp b a = CompOpp (lcmp a b).
Proof.
  induction a as [|x a IH]; intros [|y b]; cbn; try reflexivity.
  rewrite (cmp_antisym x y). destruct (cmp x y); cbn; [apply IH | reflexivity | reflexivity].
Qed.
Lemma lcmp_eq_eqb a : forall b, lcmp a b = Eq <-> leqb a b = true.
Proof.
  induction a as [|x a IH]; intros [|y b]; cbn; try (split; [reflexivity | reflexivity]); try (split; discriminate).
  destruct (cmp x y) eqn:E.
  - rewrite (proj1 (cmp_eq_eqb x y) E). cbn. apply IH.
  - split; [discriminate|]. intros H. apply andb_true_iff in H as [H _]. apply cmp_eq_eqb in H. congruence.
  - split; [discriminate|]. intros H. apply andb_true_iff in H as [H _]. apply cmp_eq_eqb in H. congruence.
Qed.
Lemma cmp_eq_r a b c : cmp b c = Eq -> cmp a b = cmp a c.
Proof.
  intros H. rewrite (cmp_antisym b a), (cmp_antisym c a). f_equal. apply cmp_eq_l. exact H.
Qed.
Lemma lcmp_trans a : forall b c o, lcmp a b = o -> lcmp b c = o -> lcmp a c = o.
Proof.
  induction a as [|x a IH]; intros [|y b] [|z c] o H1 H2; cbn in *; try congruence.
  destruct (cmp x y) eqn:E1; destruct (cmp y z) eqn:E2.
  - rewrite (cmp_eq_l x y z E1), E2. eapply IH; eauto.
  - rewrite (cmp_eq_l x y z E1), E2. exact H2.
  - rewrite (cmp_eq_l x y z E1), E2. exact H2.
  - rewrite <- (cmp_eq_r x y z E2), E1. exact H1.
  - rewrite (cmp_trans x y z Lt E1 E2). exact H1.
  - congruence.
  - rewrite <- (cmp_eq_r x y z E2), E1. exact H1.
  - congruence.
  - rewrite (cmp_trans x y z Gt E1 E2). exact H1.
Qed.
End Lex.

(* ---- Unix components ---- *)
Lemma comp_cmp_antisym a b : comp_cmp b a = CompOpp (comp_cmp a b).
Proof. destruct a, b; cbn; try reflexivity. apply cmp_bytes_antisym. Qed.
Lemma comp_cmp_eq_eqb a b : comp_cmp a b = Eq <-> comp_eqb a b = true.
Proof.
  destruct a, b; cbn; try (split; [reflexivity | reflexivity]); try (split; discriminate).
  split; intros H.
  - apply cmp_bytes_eq in H. subst. apply beq_list_refl.
  - apply beq_list_eq in H. subst. apply cmp_bytes_refl.
Qed.
Lemma comp_cmp_trans a b c o : comp_cmp a b = o -> comp_cmp b c = o -> comp_cmp a c = o.
Proof.
  destruct a, b, c; cbn; intros H1 H2; subst; try congruence; try reflexivity.
  eapply cmp_bytes_trans; eauto.
Qed.
Lemma comp_cmp_eq_l a b c : comp_cmp a b = Eq -> comp_cmp a c = comp_cmp b c.
Proof. intros H. apply comp_cmp_eq_eqb in H. apply comp_eqb_eq in H. subst. reflexivity. Qed.

Theorem u_cmp_antisym a b : u_path_cmp b a = CompOpp (u_path_cmp a b).
Proof. unfold u_path_cmp, path_cmp. apply lcmp_antisym. exact comp_cmp_antisym. Qed.
Theorem u_cmp_trans a b c o : u_path_cmp a b = o -> u_path_cmp b c = o -> u_path_cmp a c = o.
Proof.
  unfold u_path_cmp, path_cmp. apply (lcmp_trans comp comp_cmp comp_cmp_antisym comp_cmp_trans comp_cmp_eq_l).
Qed.
Theorem u_cmp_eq_iff a b : u_path_cmp a b = Eq <-> u_path_eq a b = true.
Proof. unfold u_path_cmp, path_cmp, u_path_eq, path_eq. apply lcmp_eq_eqb. exact comp_cmp_eq_eqb. Qed.
Lemma list_eqb_c_eq a : forall b, list_eqb_c comp comp_eqb a b = true <-> a = b.
Proof.
  induction a as [|x a IH]; intros [|y b]; cbn; try (split; [reflexivity | reflexivity]); try (split; discriminate).
  rewrite andb_true_iff. rewrite IH. split.
  - intros [H1 ->]. apply comp_eqb_eq in H1. subst. reflexivity.
  - intros H. inversion H; subst. split; [apply comp_eqb_refl | reflexivity].
Qed.
(* two Unix paths are equal exactly when their component sequences are equal *)
Theorem u_eq_iff a b : u_path_eq a b = true <-> ucomps a = ucomps b.
Proof.
  unfold u_path_eq, path_eq. fold (u_components a) (u_components b). rewrite !u_components_spec. apply list_eqb_c_eq.
Qed.
(* the order is lexicographic on the specification components *)
Theorem u_cmp_lexicographic a b : u_path_cmp a b = list_cmp_c comp comp_cmp (ucomps a) (ucomps b).
Proof. unfold u_path_cmp, path_cmp. fold (u_components a) (u_components b). rewrite !u_components_spec. reflexivity. Qed.

(* ---- Unix hashing: the hasher is fed the bytes of every non-root component, then their total length ---- *)
Definition nel (c : list byte) : list (list byte) := match c with [] => [] | _ => [c] end.
Definition keep_tail (g : list byte) : bool := match g with [] => false | _ => negb (is_dot g) end.
Lemma rev_flush cur feed : rev (flush cur feed) = rev feed ++ nel (rev cur).
Proof.
  unfold flush, nel. destruct cur as [|x t]; [cbn; rewrite app_nil_r; reflexivity|].
  cbn [rev]. destruct (rev t ++ [x]) eqn:E; [destruct (rev t); discriminate|]. rewrite <- E. reflexivity.
Qed.
Lemma segs_cons_sep b r : usep b = true -> segs usep (b :: r) = ([], fst (segs usep r) :: snd (segs usep r)).
Proof. intros H. cbn [segs]. destruct (segs usep r). rewrite H. reflexivity. Qed.
Lemma segs_cons_nsep b r : usep b = false -> segs usep (b :: r) = (b :: fst (segs usep r), snd (segs usep r)).
Proof. intros H. cbn [segs]. destruct (segs usep r). rewrite H. reflexivity. Qed.

Lemma hash_go_spec : forall n l cur feed, (length l <= n)%nat ->
  hash_go usep true l cur feed =
  rev feed ++ nel (rev cur ++ fst (segs usep l)) ++ filter keep_tail (snd (segs usep l)).
Proof.
  induction n as [|n IH]; intros l cur feed Hn.
  - destruct l; [|cbn in Hn; lia]. cbn [hash_go segs fst snd filter]. rewrite rev_flush, !app_nil_r. reflexivity.
  - destruct l as [|b r]; [cbn [hash_go segs fst snd filter]; rewrite rev_flush, !app_nil_r; reflexivity|].
    cbn [length] in Hn. cbn [hash_go]. destruct (usep b) eqn:Hb.
    + rewrite (segs_cons_sep b r Hb). cbn [fst snd]. rewrite app_nil_r.
      assert (Hf : rev (flush cur feed) = rev feed ++ nel (rev cur)) by apply rev_flush.
      destruct r as [|d t].
      * cbn [segs fst snd filter keep_tail]. rewrite Hf, app_nil_r. reflexivity.
      * cbn [andb]. destruct (d =? 46) eqn:Hd.
        -- apply N.eqb_eq in Hd. subst d. destruct t as [|c t'].
           ++ cbn [segs fst snd]. rewrite usep_dot. cbn [fst snd filter keep_tail is_dot beq_list]. rewrite N.eqb_refl. cbn.
              rewrite Hf, app_nil_r. reflexivity.
           ++ destruct (usep c) eqn:Hc.
              ** rewrite (IH (c :: t') [] (flush cur feed)) by (cbn [length] in *; lia).
                 rewrite (segs_cons_nsep 46 (c :: t') usep_dot). rewrite (segs_cons_sep c t' Hc). cbn [fst snd rev app nel filter].
                 cbn [keep_tail is_dot beq_list]. rewrite N.eqb_refl. cbn [andb negb]. rewrite Hf. rewrite <- app_assoc. reflexivity.
              ** rewrite (IH (46 :: c :: t') [] (flush cur feed)) by (cbn [length] in *; lia).
                 rewrite (segs_cons_nsep 46 (c :: t') usep_dot). rewrite (segs_cons_nsep c t' Hc). cbn [fst snd rev app nel filter].
                 cbn [keep_tail is_dot beq_list]. rewrite N.eqb_refl. cbn [andb negb].
                 rewrite Hf. rewrite <- !app_assoc. reflexivity.
        -- rewrite (IH (d :: t) [] (flush cur feed)) by (cbn [length] in *; lia). cbn [rev app]. rewrite Hf. rewrite <- app_assoc. f_equal. f_equal.
           destruct (usep d) eqn:Hsd.
           ++ rewrite (segs_cons_sep d t Hsd). cbn [fst snd nel filter keep_tail]. reflexivity.
           ++ rewrite (segs_cons_nsep d t Hsd). cbn [fst snd nel filter keep_tail is_dot beq_list]. rewrite Hd. cbn [andb negb]. reflexivity.
    + rewrite (IH r (b :: cur) feed) by lia. rewrite (segs_cons_nsep b r Hb). cbn [fst snd rev]. rewrite <- app_assoc. reflexivity.
Qed.

(* the same list, read off the specification components *)
Definition non_root (c : comp) : bool := negb (c_is_root c).
Lemma sc_bytes g : map uc_bytes (sc true false g) = if keep_tail g then [g] else [].
Proof.
  unfold sc, seg_comp, keep_tail. destruct g as [|x t]; [reflexivity|].
  destruct (is_dotdot (x :: t)) eqn:Hdd.
  - apply is_dotdot_iff in Hdd. rewrite Hdd. reflexivity.
  - destruct (is_dot (x :: t)); reflexivity.
Qed.
Lemma sc_non_root g : filter non_root (sc true false g) = sc true false g.
Proof. unfold sc, seg_comp. destruct g as [|x t]; [reflexivity|]. destruct (is_dotdot (x :: t)); [reflexivity|]. destruct (is_dot (x :: t)); reflexivity. Qed.
Lemma body_bytes gs : map uc_bytes (filter non_root (flat_map (sc true false) gs)) = filter keep_tail gs.
Proof.
  induction gs as [|g gs IH]; [reflexivity|]. cbn [flat_map filter]. rewrite filter_app, map_app, IH, sc_non_root, sc_bytes.
  destruct (keep_tail g); reflexivity.
Qed.
Lemma segs_span l : span_nsep usep l = (fst (segs usep l), match snd (segs usep l) with [] => [] | _ => skipn (length (fst (segs usep l))) l end).
Proof.
  induction l as [|b r IH]; [reflexivity|]. cbn [span_nsep]. destruct (usep b) eqn:Hb.
  - rewrite (segs_cons_sep b r Hb). reflexivity.
  - rewrite (segs_cons_nsep b r Hb). rewrite IH. cbn [fst snd length skipn]. reflexivity.
Qed.
Theorem u_hash_chunks l :
  hash_go usep true l [] [] = map uc_bytes (filter non_root (ucomps l)).
Proof.
  rewrite (hash_go_spec (length l) l [] [] (le_n _)). cbn [rev app].
  rewrite ucomps_cs. unfold cs. cbn [fst snd cspec]. rewrite filter_app, map_app.
  unfold body, split. destruct (segs usep l) as [g gs] eqn:Es. cbn [fst snd flat_map]. rewrite filter_app, map_app.
  change (flat_map (CoreProofs.sc true false) gs) with (flat_map (sc true false) gs). rewrite body_bytes.
  rewrite app_assoc. f_equal.
  rewrite sc_non_root, sc_bytes.
  destruct l as [|b r]; [cbn in Es; inversion Es; reflexivity|].
  unfold lead_extra. cbn [root_ok]. destruct (usep b) eqn:Hb.
  - rewrite (segs_cons_sep b r Hb) in Es. inversion Es; subst. reflexivity.
  - pose proof (segs_span (b :: r)) as Hsp. rewrite Es in Hsp. cbn [fst snd] in Hsp.
    pose proof (cur_ok_span usep usep_dot (b :: r) _ _ Hsp) as Hc. cbn [andb]. rewrite Hc.
    rewrite (segs_cons_nsep b r Hb) in Es. inversion Es; subst g. unfold keep_tail, nel.
    destruct (is_dot (b :: fst (segs usep r))) eqn:Hd.
    + apply is_dot_iff in Hd. rewrite Hd. reflexivity.
    + reflexivity.
Qed.
(* equal Unix paths feed identical data to any hasher *)
Theorem u_eq_same_hash a b : u_path_eq a b = true -> u_hash a = u_hash b.
Proof.
  intros H. apply u_eq_iff in H. unfold u_hash. rewrite !u_hash_chunks. rewrite H. reflexivity.
Qed.
Theorem u_hash_feed l :
  u_hash l = map HWrite (map uc_bytes (filter non_root (ucomps l)))
             ++ [HUsize (total_len (map uc_bytes (filter non_root (ucomps l))))].
Proof. unfold u_hash. rewrite u_hash_chunks. reflexivity. Qed.

(* ---- Windows components: the derived order is a total order compatible with the derived equality ---- *)
Definition bl_cmp := list_cmp_c (list byte) cmp_bytes.
Definition bl_eqb := list_eqb_c (list byte) beq_list.
Lemma cmp_bytes_eq_eqb a b : cmp_bytes a b = Eq <-> beq_list a b = true.
Proof. split; intros H; [apply cmp_bytes_eq in H; subst; apply beq_list_refl | apply beq_list_eq in H; subst; apply cmp_bytes_refl]. Qed.
Lemma cmp_bytes_eq_l a b c : cmp_bytes a b = Eq -> cmp_bytes a c = cmp_bytes b c.
Proof. intros H. apply cmp_bytes_eq in H. subst. reflexivity. Qed.
Lemma bl_antisym a b : bl_cmp b a = CompOpp (bl_cmp a b).
Proof. apply lcmp_antisym. intros; apply cmp_bytes_antisym. Qed.
Lemma bl_trans a b c o : bl_cmp a b = o -> bl_cmp b c = o -> bl_cmp a c = o.
Proof. apply (lcmp_trans (list byte) cmp_bytes (fun x y => cmp_bytes_antisym x y) cmp_bytes_trans cmp_bytes_eq_l). Qed.
Lemma bl_eq_eqb a b : bl_cmp a b = Eq <-> bl_eqb a b = true.
Proof. apply lcmp_eq_eqb. exact cmp_bytes_eq_eqb. Qed.
Lemma bl_eqb_eq a : forall b, bl_eqb a b = true -> a = b.
Proof.
  induction a as [|x a IH]; intros [|y b] H; cbn in H; try discriminate; [reflexivity|].
  apply andb_true_iff in H as [H1 H2]. apply beq_list_eq in H1. subst. f_equal. apply IH. exact H2.
Qed.
Lemma bl_eq_l a b c : bl_cmp a b = Eq -> bl_cmp a c = bl_cmp b c.
Proof. intros H. apply bl_eq_eqb in H. apply bl_eqb_eq in H. subst. reflexivity. Qed.

(* a key: (variant index, payload as a list of byte strings); both derived relations are the
   lexicographic ones on keys *)
Definition kcmp (a b : N * list (list byte)) : comparison :=
  match fst a ?= fst b with Eq => bl_cmp (snd a) (snd b) | c => c end.
Definition keqb (a b : N * list (list byte)) : bool := (fst a =? fst b) && bl_eqb (snd a) (snd b).
Lemma kcmp_antisym a b : kcmp b a = CompOpp (kcmp a b).
Proof. unfold kcmp. rewrite (N.compare_antisym (fst a) (fst b)). destruct (fst a ?= fst b); cbn; [apply bl_antisym | reflexivity | reflexivity]. Qed.
Lemma kcmp_eq_eqb a b : kcmp a b = Eq <-> keqb a b = true.
Proof.
  unfold kcmp, keqb. destruct (fst a ?= fst b) eqn:E.
  - apply N.compare_eq in E. rewrite E, N.eqb_refl. cbn. apply bl_eq_eqb.
  - split; [discriminate|]. intros H. apply andb_true_iff in H as [H _]. apply N.eqb_eq in H. rewrite H, N.compare_refl in E. discriminate.
  - split; [discriminate|]. intros H. apply andb_true_iff in H as [H _]. apply N.eqb_eq in H. rewrite H, N.compare_refl in E. discriminate.
Qed.
Lemma kcmp_trans a b c o : kcmp a b = o -> kcmp b c = o -> kcmp a c = o.
Proof.
  unfold kcmp. intros H1 H2.
  destruct (fst a ?= fst b) eqn:E1; destruct (fst b ?= fst c) eqn:E2.
  - apply N.compare_eq in E1. apply N.compare_eq in E2. rewrite E1, E2, N.compare_refl. eapply bl_trans; eauto.
  - apply N.compare_eq in E1. rewrite E1, E2. exact H2.
  - apply N.compare_eq in E1. rewrite E1, E2. exact H2.
  - apply N.compare_eq in E2. rewrite <- E2, E1. exact H1.
  - assert (Hlt : (fst a ?= fst c) = Lt) by (apply N.compare_lt_iff; apply N.compare_lt_iff in E1; apply N.compare_lt_iff in E2; eapply N.lt_trans; eauto).
    rewrite Hlt. exact H1.
  - congruence.
  - apply N.compare_eq in E2. rewrite <- E2, E1. exact H1.
  - congruence.
  - assert (Hgt : (fst a ?= fst c) = Gt) by (apply N.compare_gt_iff; apply N.compare_gt_iff in E1; apply N.compare_gt_iff in E2; eapply N.lt_trans; eauto).
    rewrite Hgt. exact H1.
Qed.

Definition pkey (k : wprefix) : N * list (list byte) :=
  (wprefix_idx k,
   match k with
   | Verbatim x | DeviceNS x => [x]
   | VerbatimUNC x y | UNC x y => [x; y]
   | VerbatimDisk d | Disk d => [[d]]
   end).
Lemma cmp_bytes_single x y : cmp_bytes [x] [y] = (x ?= y).
Proof. cbn. destruct (x ?= y); reflexivity. Qed.
Lemma wprefix_cmp_key a b : wprefix_cmp a b = kcmp (pkey a) (pkey b).
Proof.
  destruct a, b; unfold kcmp, pkey, bl_cmp; cbn [fst snd wprefix_idx wprefix_cmp list_cmp_c N.compare]; try reflexivity;
    try (destruct (cmp_bytes _ _); reflexivity).
  - unfold cmp_then. destruct (cmp_bytes s s0); try reflexivity. destruct (cmp_bytes sh sh0); reflexivity.
  - rewrite cmp_bytes_single. destruct (d ?= d0); reflexivity.
  - unfold cmp_then. destruct (cmp_bytes s s0); try reflexivity. destruct (cmp_bytes sh sh0); reflexivity.
  - rewrite cmp_bytes_single. destruct (d ?= d0); reflexivity.
Qed.
Lemma wprefix_eqb_key a b : wprefix_eqb a b = keqb (pkey a) (pkey b).
Proof.
  destruct a, b; unfold keqb, pkey, bl_eqb; cbn [fst snd wprefix_idx wprefix_eqb list_eqb_c N.eqb Pos.eqb andb]; try reflexivity;
    try (rewrite ?andb_true_r; reflexivity).
  - cbn [beq_list]. rewrite !andb_true_r. reflexivity.
  - cbn [beq_list]. rewrite !andb_true_r. reflexivity.
Qed.
Lemma kcmp_eq_l a b c : kcmp a b = Eq -> kcmp a c = kcmp b c.
Proof.
  intros H. apply kcmp_eq_eqb in H. unfold keqb in H. apply andb_true_iff in H as [H1 H2].
  apply N.eqb_eq in H1. apply bl_eqb_eq in H2. unfold kcmp. rewrite H1, H2. reflexivity.
Qed.
Lemma wprefix_cmp_antisym a b : wprefix_cmp b a = CompOpp (wprefix_cmp a b).
Proof. rewrite !wprefix_cmp_key. apply kcmp_antisym. Qed.
Lemma wprefix_cmp_eq_eqb a b : wprefix_cmp a b = Eq <-> wprefix_eqb a b = true.
Proof. rewrite wprefix_cmp_key, wprefix_eqb_key. apply kcmp_eq_eqb. Qed.
Lemma wprefix_cmp_trans a b c o : wprefix_cmp a b = o -> wprefix_cmp b c = o -> wprefix_cmp a c = o.
Proof. rewrite !wprefix_cmp_key. apply kcmp_trans. Qed.
Lemma wprefix_cmp_eq_l a b c : wprefix_cmp a b = Eq -> wprefix_cmp a c = wprefix_cmp b c.
Proof. rewrite !wprefix_cmp_key. apply kcmp_eq_l. Qed.

Lemma wcomp_cmp_antisym a b : wcomp_cmp b a = CompOpp (wcomp_cmp a b).
Proof.
  destruct a as [ra ka|[| | |na]], b as [rb kb|[| | |nb]]; cbn; try reflexivity;
    [apply wprefix_cmp_antisym | apply cmp_bytes_antisym].
Qed.
Lemma wcomp_cmp_eq_eqb a b : wcomp_cmp a b = Eq <-> wcomp_eqb a b = true.
Proof.
  destruct a as [ra ka|[| | |na]], b as [rb kb|[| | |nb]]; cbn;
    try (split; [reflexivity | reflexivity]); try (split; discriminate);
    [apply wprefix_cmp_eq_eqb | apply cmp_bytes_eq_eqb].
Qed.
Lemma wcomp_cmp_trans a b c o : wcomp_cmp a b = o -> wcomp_cmp b c = o -> wcomp_cmp a c = o.
Proof.
  destruct a as [ra ka|[| | |na]], b as [rb kb|[| | |nb]], c as [rc kc|[| | |nc]]; cbn; intros H1 H2; subst;
    try congruence; try reflexivity; eauto using wprefix_cmp_trans, cmp_bytes_trans.
Qed.
Lemma wcomp_cmp_eq_l a b c : wcomp_cmp a b = Eq -> wcomp_cmp a c = wcomp_cmp b c.
Proof.
  destruct a as [ra ka|[| | |na]], b as [rb kb|[| | |nb]]; cbn; intros H; try discriminate; try reflexivity.
  - destruct c as [rc kc|[| | |nc]]; cbn; try reflexivity. apply wprefix_cmp_eq_l. exact H.
  - apply cmp_bytes_eq in H. subst. reflexivity.
Qed.

Theorem w_cmp_antisym a b : w_path_cmp b a = CompOpp (w_path_cmp a b).
Proof. unfold w_path_cmp, path_cmp. apply lcmp_antisym. exact wcomp_cmp_antisym. Qed.
Theorem w_cmp_trans a b c o : w_path_cmp a b = o -> w_path_cmp b c = o -> w_path_cmp a c = o.
Proof. unfold w_path_cmp, path_cmp. apply (lcmp_trans wcomp wcomp_cmp wcomp_cmp_antisym wcomp_cmp_trans wcomp_cmp_eq_l). Qed.
Theorem w_cmp_eq_iff a b : w_path_cmp a b = Eq <-> w_path_eq a b = true.
Proof. unfold w_path_cmp, path_cmp, w_path_eq, path_eq. apply lcmp_eq_eqb. exact wcomp_cmp_eq_eqb. Qed.
