(* UTF-8 lemmas: validity as an inductive chain of steps, locality of a step, concatenation,
   lossy decoding, and cuts next to ASCII bytes (C14, C19). *)
From Coq Require Import List NArith Bool Lia Arith PeanoNat.
Import ListNotations.
From TP Require Import Core Utf8.
Open Scope N_scope.

Inductive Valid : list byte -> Prop :=
| V_nil : Valid []
| V_step l n : l <> [] -> utf8_step l = (true, n) -> Valid (skipn n l) -> Valid l.

Lemma step_pos l ok n : l <> [] -> utf8_step l = (ok, n) -> (0 < n)%nat.
Proof.
  destruct l as [|b r]; [congruence|]. intros _. unfold utf8_step.
  repeat match goal with
         | |- context [if ?x then _ else _] => destruct x
         | |- context [match ?x with _ => _ end] => destruct x
         end; intros H; inversion H; lia.
Qed.
Lemma step_le l ok n : utf8_step l = (ok, n) -> (n <= length l)%nat.
Proof.
  unfold utf8_step. destruct l as [|b r]; [intros H; inversion H; cbn; lia|].
  repeat match goal with
         | |- context [if ?x then _ else _] => destruct x
         | |- context [match ?x with [] => _ | _ :: _ => _ end] => destruct x
         end; intros H; inversion H; cbn; lia.
Qed.

Lemma valid_fuel_Valid : forall f l, (length l <= f)%nat -> (utf8_valid_fuel f l = true <-> Valid l).
Proof.
  induction f as [|f IH]; intros l Hl.
  - destruct l; [|cbn in Hl; lia]. cbn. split; [constructor | reflexivity].
  - destruct l as [|b r] eqn:El; [cbn; split; [constructor | reflexivity]|]. rewrite <- El in *.
    assert (Hne : l <> []) by (rewrite El; discriminate).
    change (utf8_valid_fuel (S f) l) with (match l with [] => true | _ => let (ok, n) := utf8_step l in ok && utf8_valid_fuel f (skipn n l) end).
    rewrite El. rewrite <- El. destruct (utf8_step l) as [ok n] eqn:Es.
    pose proof (step_pos l ok n Hne Es) as Hn.
    assert (Hlen : (length (skipn n l) <= f)%nat) by (rewrite skipn_length; lia).
    split.
    + intros H. apply andb_true_iff in H as [-> H]. apply (V_step l n Hne Es). apply (IH _ Hlen). exact H.
    + intros H. inversion H as [E0|l0 n0 _ Es0 Hv]; [congruence|]. subst l0. rewrite Es in Es0. inversion Es0; subst ok n0.
      cbn [andb]. apply (IH _ Hlen). exact Hv.
Qed.
Theorem utf8_valid_iff l : utf8_valid l = true <-> Valid l.
Proof. unfold utf8_valid. apply valid_fuel_Valid. lia. Qed.

(* a well-formed step only looks at the bytes it consumes *)
Ltac rw_bools := repeat match goal with H : _ = true |- _ => rewrite H | H : _ = false |- _ => rewrite H end.
Lemma step_local l n : l <> [] -> utf8_step l = (true, n) -> forall r, utf8_step (firstn n l ++ r) = (true, n).
Proof.
  intros Hne. unfold utf8_step. destruct l as [|b l1]; [congruence|]. clear Hne.
  destruct (b <? 128) eqn:H1.
  { intros H; inversion H; subst. intros r. cbn [firstn app]. rewrite H1. reflexivity. }
  destruct (in_range 194 223 b) eqn:H2.
  { destruct l1 as [|c l2]; [discriminate|]. destruct (is_cont c) eqn:Hc; [|discriminate].
    intros H; inversion H; subst. intros r. cbn [firstn app]. rewrite H1, H2, Hc. reflexivity. }
  destruct (in_range 224 239 b) eqn:H3.
  { destruct l1 as [|c l2]; [discriminate|]. destruct (second_ok3 b c) eqn:Hc; [|discriminate].
    destruct l2 as [|d l3]; [discriminate|]. destruct (is_cont d) eqn:Hd; [|discriminate].
    intros H; inversion H; subst. intros r. cbn [firstn app]. rewrite H1, H2, H3, Hc, Hd. reflexivity. }
  destruct (in_range 240 244 b) eqn:H4; [|discriminate].
  destruct l1 as [|c l2]; [discriminate|]. destruct (second_ok4 b c) eqn:Hc; [|discriminate].
  destruct l2 as [|d l3]; [discriminate|]. destruct (is_cont d) eqn:Hd; [|discriminate].
  destruct l3 as [|e l4]; [discriminate|]. destruct (is_cont e) eqn:He; [|discriminate].
  intros H; inversion H; subst. intros r. cbn [firstn app]. rewrite H1, H2, H3, H4, Hc, Hd, He. reflexivity.
Qed.

(* concatenation of valid strings is valid *)
Theorem Valid_app a b : Valid a -> Valid b -> Valid (a ++ b).
Proof.
  intros Ha Hb. induction Ha as [|l n Hne Es Hv IH]; [exact Hb|].
  pose proof (step_le l true n Es) as Hle.
  assert (E : l ++ b = firstn n l ++ (skipn n l ++ b)) by (rewrite app_assoc, firstn_skipn; reflexivity).
  apply (V_step (l ++ b) n).
  - destruct l; [congruence | discriminate].
  - rewrite E. apply step_local; assumption.
  - rewrite skipn_app. replace (n - length l)%nat with O by lia. cbn [skipn]. exact IH.
Qed.
Theorem utf8_valid_app a b : utf8_valid a = true -> utf8_valid b = true -> utf8_valid (a ++ b) = true.
Proof. rewrite !utf8_valid_iff. apply Valid_app. Qed.

(* one well-formed step is itself a valid string *)
Lemma Valid_one_step l n : l <> [] -> utf8_step l = (true, n) -> Valid (firstn n l).
Proof.
  intros Hne Es. pose proof (step_local l n Hne Es []) as H. rewrite app_nil_r in H.
  pose proof (step_pos l true n Hne Es) as Hn. pose proof (step_le l true n Es) as Hle.
  apply (V_step (firstn n l) n).
  - destruct l; [congruence|]. destruct n; [lia | discriminate].
  - exact H.
  - rewrite skipn_all2; [constructor | rewrite firstn_length; lia].
Qed.
Lemma Valid_replacement : Valid [239; 191; 189].
Proof. apply (V_step _ 3%nat); [discriminate | reflexivity | constructor]. Qed.

(* the lossy decoding is always valid UTF-8, and is the identity on valid input *)
Lemma lossy_fuel_Valid : forall f l, Valid (lossy_fuel f l).
Proof.
  induction f as [|f IH]; intros l; [constructor|].
  cbn [lossy_fuel]. destruct l as [|b r] eqn:El; [constructor|]. rewrite <- El.
  assert (Hne : l <> []) by (rewrite El; discriminate).
  destruct (utf8_step l) as [ok n] eqn:Es. apply Valid_app; [|apply IH].
  destruct ok; [apply (Valid_one_step l n Hne Es) | apply Valid_replacement].
Qed.
Theorem lossy_valid l : utf8_valid (lossy l) = true.
Proof. apply utf8_valid_iff. apply lossy_fuel_Valid. Qed.

(* ---- cuts ---- *)
(* inside a well-formed multi-byte step every byte after the first is a continuation byte (>= 128),
   and a step that starts with an ASCII byte is that byte alone *)
Lemma step_tail_high l n : utf8_step l = (true, n) -> forall i, (0 < i < n)%nat -> 128 <= nth i l 0.
Proof.
  unfold utf8_step, is_cont, in_range. destruct l as [|b l1]; [intros H; inversion H; lia|].
  destruct (b <? 128); [intros H; inversion H; subst; intros i Hi; lia|].
  destruct ((194 <=? b) && (b <=? 223)).
  { destruct l1 as [|c l2]; [discriminate|]. destruct ((128 <=? c) && (c <=? 191)) eqn:Hc; [|discriminate].
    intros H; inversion H; subst. intros i Hi. assert (i = 1%nat) by lia. subst i. cbn.
    apply andb_true_iff in Hc as [Hc _]. apply N.leb_le in Hc. exact Hc. }
  destruct ((224 <=? b) && (b <=? 239)).
  { destruct l1 as [|c l2]; [discriminate|]. destruct (second_ok3 b c) eqn:Hc; [|discriminate].
    destruct l2 as [|d l3]; [discriminate|]. destruct ((128 <=? d) && (d <=? 191)) eqn:Hd; [|discriminate].
    intros H; inversion H; subst. intros i Hi.
    assert (Hc' : 128 <= c).
    { unfold second_ok3, is_cont, in_range in Hc.
      repeat (apply orb_true_iff in Hc as [Hc|Hc]); repeat (apply andb_true_iff in Hc as [? Hc]);
        repeat match goal with H : (_ <=? _) = true |- _ => apply N.leb_le in H end; try apply N.leb_le in Hc; lia. }
    apply andb_true_iff in Hd as [Hd _]. apply N.leb_le in Hd.
    destruct i as [|[|[|i]]]; cbn; try lia. }
  destruct ((240 <=? b) && (b <=? 244)); [|discriminate].
  destruct l1 as [|c l2]; [discriminate|]. destruct (second_ok4 b c) eqn:Hc; [|discriminate].
  destruct l2 as [|d l3]; [discriminate|]. destruct ((128 <=? d) && (d <=? 191)) eqn:Hd; [|discriminate].
  destruct l3 as [|e l4]; [discriminate|]. destruct ((128 <=? e) && (e <=? 191)) eqn:He; [|discriminate].
  intros H; inversion H; subst. intros i Hi.
  assert (Hc' : 128 <= c).
  { unfold second_ok4, is_cont, in_range in Hc.
    repeat (apply orb_true_iff in Hc as [Hc|Hc]); repeat (apply andb_true_iff in Hc as [? Hc]);
      repeat match goal with H : (_ <=? _) = true |- _ => apply N.leb_le in H end; try apply N.leb_le in Hc; lia. }
  apply andb_true_iff in Hd as [Hd _]. apply N.leb_le in Hd.
  apply andb_true_iff in He as [He _]. apply N.leb_le in He.
  destruct i as [|[|[|[|i]]]]; cbn; try lia.
Qed.

Lemma nth_skipn_c {X} (l : list X) : forall n i d, nth i (skipn n l) d = nth (n + i) l d.
Proof.
  induction l as [|x l IH]; intros n i d; [destruct n, i; reflexivity|]. destruct n; [reflexivity|]. cbn [skipn plus nth]. apply IH.
Qed.
Lemma skipn_skipn_c {X} (l : list X) : forall a b, skipn a (skipn b l) = skipn (b + a) l.
Proof. induction l as [|x l IH]; intros a b; [destruct a, b; reflexivity|]. destruct b; [reflexivity|]. cbn [skipn plus]. apply IH. Qed.
(* a valid string can be cut in front of any ASCII byte: both halves are valid *)
Theorem Valid_cut_before_ascii l : Valid l -> forall k, (k < length l)%nat -> nth k l 0 < 128 ->
  Valid (firstn k l) /\ Valid (skipn k l).
Proof.
  intros Hv. induction Hv as [|l n Hne Es Hv IH]; intros k Hk Hb; [cbn in Hk; lia|].
  pose proof (step_pos l true n Hne Es) as Hn. pose proof (step_le l true n Es) as Hle.
  destruct k as [|k'].
  - cbn [firstn skipn]. split; [constructor | apply (V_step l n Hne Es Hv)].
  - destruct (Nat.lt_ge_cases (S k') n) as [Hlt|Hge].
    + exfalso. pose proof (step_tail_high l n Es (S k') ltac:(lia)). lia.
    + assert (Hk2 : (S k' - n < length (skipn n l))%nat) by (rewrite skipn_length; lia).
      assert (Hb2 : nth (S k' - n) (skipn n l) 0 < 128).
      { rewrite nth_skipn_c. replace (n + (S k' - n))%nat with (S k') by lia. exact Hb. }
      destruct (IH (S k' - n)%nat Hk2 Hb2) as [H1 H2].
      split.
      * replace (firstn (S k') l) with (firstn n l ++ firstn (S k' - n) (skipn n l)).
        -- apply Valid_app; [apply (Valid_one_step l n Hne Es) | exact H1].
        -- rewrite <- (firstn_skipn n l) at 3. rewrite firstn_app, firstn_length. rewrite Nat.min_l by lia.
           rewrite firstn_firstn. rewrite Nat.min_r by lia. reflexivity.
      * replace (skipn (S k') l) with (skipn (S k' - n) (skipn n l)); [exact H2|].
        rewrite skipn_skipn_c. f_equal. lia.
Qed.
Lemma firstn_S_nth {X} (l : list X) d : forall k, (k < length l)%nat -> firstn (S k) l = firstn k l ++ [nth k l d].
Proof.
  induction l as [|x l IH]; intros k Hk; [cbn in Hk; lia|]. destruct k; [reflexivity|].
  cbn [firstn nth app]. f_equal. apply IH. cbn in Hk. lia.
Qed.
(* ... and right after any ASCII byte *)
Theorem Valid_cut_after_ascii l : Valid l -> forall k, (k < length l)%nat -> nth k l 0 < 128 ->
  Valid (firstn (S k) l) /\ Valid (skipn (S k) l).
Proof.
  intros Hv k Hk Hb. destruct (Valid_cut_before_ascii l Hv k Hk Hb) as [H1 H2].
  assert (Hs : skipn k l = nth k l 0 :: skipn (S k) l).
  { clear -Hk. revert k Hk. induction l as [|x l IH]; intros k Hk; [cbn in Hk; lia|]. destruct k; [reflexivity|]. cbn [skipn nth]. apply IH. cbn in Hk. lia. }
  assert (Hstep : utf8_step (skipn k l) = (true, 1%nat)).
  { rewrite Hs. unfold utf8_step. apply N.ltb_lt in Hb. rewrite Hb. reflexivity. }
  split.
  - replace (firstn (S k) l) with (firstn k l ++ [nth k l 0]).
    + apply Valid_app; [exact H1|]. apply (V_step _ 1%nat); [discriminate | | constructor].
      unfold utf8_step. apply N.ltb_lt in Hb. rewrite Hb. reflexivity.
    + symmetry. apply firstn_S_nth. exact Hk.
  - inversion H2 as [E0|l0 n0 Hne0 Es0 Hv0]; [rewrite Hs in E0; discriminate|]. subst l0.
    rewrite Hstep in Es0. inversion Es0; subst n0. rewrite Hs in Hv0. cbn [skipn] in Hv0. exact Hv0.
Qed.
