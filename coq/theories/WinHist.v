(* Histories of pushes onto a Windows base with a UNC / device / drive prefix and a non-empty rest, read at the
   level of components: every relative, prefix-free, non-empty path pushed appends what it adds (its components
   minus a leading "."), whatever was pushed before -- the prefix is read the same way after every step. *)
From Coq Require Import List NArith Bool Lia Arith.
Import ListNotations.
From TP Require Import Core CoreProofs CoreSched Path Unix Win Spec GenJoin C02Proofs C08Proofs WinProofs WinTrunc WinSimple C16Proofs
  C11WinProofs WinExtend C12Win C11WinPrefixed.
Open Scope N_scope.

Definition rel_plain (b : list byte) : Prop := noprefix b = true /\ g_rooted wany b = false /\ b <> [].

Section H.
Variables (p : list byte) (k : wprefix).
Hypothesis Hk : k_verbatim k = false.
Hypothesis S : forall r', fits k r' -> wprefix_grammar (p ++ r') = Some (k, r') /\ s_norm (p ++ r') = true.

Lemma push_rel_prefixed buf b : PInv p k buf -> rel_plain b ->
  PInv p k (w_push buf b) /\ wspec (w_push buf b) = wspec buf ++ map WC (gadded wany b).
Proof.
  intros (rb & -> & Hne & Hf) (Hn & Hr & Hbne). destruct (S rb Hf) as (Hg & _). split.
  - destruct (join_spec_prefixed (p ++ rb) k rb b Hg Hk Hne Hn) as (p' & El & _ & J & Fj & _).
    apply app_inv_tail in El. subst p'. rewrite w_push_join_spec, J. exists (WJOIN rb b). split; [reflexivity|]. split.
    + unfold gjoin. destruct b as [|b0 bt] eqn:Eb; [congruence|]. rewrite <- Eb in *. rewrite Hr.
      destruct rb as [|r0 rt]; [congruence|]. destruct (g_ends_sep wany (r0 :: rt)); discriminate.
    + apply Fj. exact Hbne.
  - apply (wspec_join_prefixed (p ++ rb) k rb b Hg Hk Hne Hn Hr Hbne).
Qed.
Lemma fold_push_rel_prefixed bs : forall buf, PInv p k buf -> Forall rel_plain bs ->
  PInv p k (fold_left w_push bs buf) /\
  wspec (fold_left w_push bs buf) = wspec buf ++ flat_map (fun b => map WC (gadded wany b)) bs.
Proof.
  induction bs as [|b bs IH]; intros buf Hb H; cbn [fold_left flat_map]; [rewrite app_nil_r; auto|].
  inversion H as [|? ? Hb1 Hbs]; subst. destruct (push_rel_prefixed buf b Hb Hb1) as (H1 & H2).
  destruct (IH _ H1 Hbs) as (H3 & H4). split; [exact H3|]. rewrite H4, H2, <- app_assoc. reflexivity.
Qed.
End H.

Theorem wspec_push_history_prefixed a k r bs : wprefix_grammar a = Some (k, r) -> k_verbatim k = false -> r <> [] ->
  Forall rel_plain bs ->
  wspec (fold_left w_push bs a) = wspec a ++ flat_map (fun b => map WC (gadded wany b)) bs.
Proof.
  intros Hg Hk Hne Hbs. destruct (prefixed_pack a k r Hg Hk Hne) as (p & El & Hp & Hf & S & _).
  apply (fold_push_rel_prefixed p k Hk S bs a); [|exact Hbs]. exists r. auto.
Qed.
(* the same for a prefix-free, non-empty base *)
Theorem wspec_push_history_plain bs : forall a, noprefix a = true -> a <> [] -> Forall rel_plain bs ->
  noprefix (fold_left w_push bs a) = true /\
  wspec (fold_left w_push bs a) = wspec a ++ flat_map (fun b => map WC (gadded wany b)) bs.
Proof.
  induction bs as [|b bs IH]; intros a Ha Hane H; cbn [fold_left flat_map]; [rewrite app_nil_r; auto|].
  inversion H as [|? ? (Hn & Hr & Hbne) Hbs]; subst.
  assert (Hn1 : noprefix (w_push a b) = true) by (rewrite w_push_join_spec, (join_spec_plain a b Ha Hn); apply noprefix_join; assumption).
  assert (Hne1 : w_push a b <> []).
  { rewrite w_push_join_spec, (join_spec_plain a b Ha Hn). unfold gjoin. destruct b as [|b0 bt] eqn:Eb; [congruence|]. rewrite <- Eb in *. rewrite Hr.
    destruct a as [|a0 at_]; [congruence|]. destruct (g_ends_sep wany (a0 :: at_)); discriminate. }
  destruct (IH _ Hn1 Hne1 Hbs) as (H3 & H4). split; [exact H3|]. rewrite H4.
  rewrite (wspec_join_plain a b Ha Hn Hr Hbne). destruct a; [congruence|]. rewrite <- app_assoc. reflexivity.
Qed.
