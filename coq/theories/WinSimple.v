(* Simple Windows paths: no prefix, or a drive prefix `X:`; never starting with exactly \\?\.
   For them the grammar specification reduces to the generic split-and-classify with either slash
   as separator, and the joining rule table to the generic join of GenJoin.v -- which gives the
   component-level reading of C04 / C08 / C16 for this fragment. *)
From Coq Require Import List NArith Bool Lia Arith.
Import ListNotations.
From TP Require Import Core CoreProofs CoreSched Path Unix Win Spec GenJoin C02Proofs C08Proofs.
Open Scope N_scope.

Notation wany := (wsep true).
Lemma wany_dot : wany 46 = false. Proof. reflexivity. Qed.
Lemma wany_92 : wany 92 = true. Proof. reflexivity. Qed.
Notation WCOMPS := (gcomps wany).
Notation WJOIN := (gjoin wany 92).

Definition two_seps (l : list byte) : bool := match l with a :: b :: _ => s_sep_any a && s_sep_any b | _ => false end.
Definition noprefix (l : list byte) : bool :=
  negb (two_seps l) && match disk_at l with Some _ => false | None => true end.

Lemma noprefix_grammar l : noprefix l = true -> wprefix_grammar l = None /\ s_norm l = true.
Proof.
  unfold noprefix. intros H. apply andb_true_iff in H as [H2 Hd]. apply negb_true_iff in H2.
  destruct (disk_at l) as [[dl r]|] eqn:Ed; [discriminate|]. clear Hd.
  destruct l as [|a [|b [|c [|d rest]]]]; unfold wprefix_grammar; cbn [two_seps] in H2.
  - cbn. split; reflexivity.
  - cbn. split; reflexivity.
  - rewrite H2. rewrite Ed. split; reflexivity.
  - rewrite H2. rewrite Ed. split; reflexivity.
  - rewrite H2. cbn [andb]. rewrite Ed. split; [reflexivity|].
    unfold s_norm. unfold s_sep_any in H2. destruct (a =? 92) eqn:Ea; [|reflexivity]. destruct (b =? 92) eqn:Eb; [|reflexivity].
    cbn in H2. discriminate.
Qed.
Lemma wspec_plain l : noprefix l = true -> wspec l = map WC (WCOMPS l).
Proof.
  intros H. destruct (noprefix_grammar l H) as (Eg & En). unfold wspec. rewrite Eg, En.
  rewrite (gcomps_spec wany wany_dot). reflexivity.
Qed.

(* a drive prefix *)
Lemma alpha_not_sep d : s_alpha d = true -> s_sep_any d = false.
Proof.
  unfold s_alpha, s_sep_any. intros H.
  destruct (d =? 92) eqn:E1; [apply N.eqb_eq in E1; subst; discriminate|].
  destruct (d =? 47) eqn:E2; [apply N.eqb_eq in E2; subst; discriminate|]. reflexivity.
Qed.
Lemma disk_grammar d rest : s_alpha d = true ->
  wprefix_grammar (d :: 58 :: rest) = Some (Disk (s_upper d), rest) /\ s_norm (d :: 58 :: rest) = true.
Proof.
  intros Ha. pose proof (alpha_not_sep d Ha) as Hs.
  assert (Hd : disk_at (d :: 58 :: rest) = Some (s_upper d, rest)) by (cbn; rewrite Ha; reflexivity).
  destruct rest as [|c [|e rest']]; unfold wprefix_grammar; rewrite Hs; cbn [andb]; rewrite Hd; (split; [reflexivity|]).
  - reflexivity.
  - reflexivity.
  - unfold s_norm. unfold s_sep_any in Hs. destruct (d =? 92); [discriminate | reflexivity].
Qed.
Lemma wspec_disk d rest : s_alpha d = true ->
  wspec (d :: 58 :: rest) = WPrefix [d; 58] (Disk (s_upper d)) :: map WC (WCOMPS rest).
Proof.
  intros Ha. destruct (disk_grammar d rest Ha) as (Eg & En). unfold wspec. rewrite Eg, En.
  rewrite (gcomps_spec wany wany_dot).
  replace (length (d :: 58%N :: rest) - length rest)%nat with 2%nat by (cbn [length]; lia). reflexivity.
Qed.

(* ---- the rule table on simple paths is the generic join ---- *)
Lemma gcomps_nil_inv l : WCOMPS l = [] -> l = [].
Proof.
  intros H. destruct l as [|b r]; [reflexivity|]. exfalso.
  pose proof (front_spec wany true wany_dot AtBeg (b :: r) eq_refl) as F. unfold gcomps in H.
  cbn [parse_front] in F. destruct (wany b) eqn:Hb.
  - destruct F as (F & _). cbn [cspec] in F. rewrite F in H. discriminate.
  - unfold filename in F. destruct (span_cons_nsep wany b r Hb) as (n' & rest & Hs & _). rewrite Hs in F.
    destruct F as (F & _). cbn [cspec] in F. rewrite F in H. discriminate.
Qed.
Lemma rooted_first l : match WCOMPS l with Root :: _ => true | _ => false end = g_rooted wany l.
Proof.
  unfold gcomps, g_rooted, lead_extra. destruct (root_ok wany l); [reflexivity|].
  destruct (true && cur_ok wany l); cbn [app]; [reflexivity|].
  destruct (body wany true l) as [|c0 t0] eqn:Eb; [reflexivity|]. destruct c0; try reflexivity.
  exfalso. pose proof (body_no_root_cur_g wany l) as H. rewrite Eb in H. inversion H as [|? ? [H1 _] _]. congruence.
Qed.
Lemma ends_in_sep_g l : ends_in_sep l = g_ends_sep wany l.
Proof. reflexivity. Qed.

Lemma sp_plain l : noprefix l = true ->
  sp_has_prefix l = false /\ sp_verbatim l = false /\ sp_prefix_raw l = [] /\ sp_bare_drive l = false /\ sp_rooted l = g_rooted wany l.
Proof.
  intros H. unfold sp_has_prefix, sp_verbatim, sp_prefix_raw, sp_bare_drive, sp_rooted, sp_prefix. rewrite (wspec_plain l H).
  pose proof (rooted_first l) as R. destruct (WCOMPS l) as [|c t]; cbn [map].
  - split; [reflexivity|]. split; [reflexivity|]. split; [reflexivity|]. split; [reflexivity|]. exact R.
  - split; [reflexivity|]. split; [reflexivity|]. split; [reflexivity|]. split; [destruct t; reflexivity|]. destruct c; exact R.
Qed.
Theorem join_spec_plain a b : noprefix a = true -> noprefix b = true -> join_spec a b = WJOIN a b.
Proof.
  intros Ha Hb. destruct (sp_plain a Ha) as (_ & Av & Ar & Ad & _). destruct (sp_plain b Hb) as (Bp & _ & _ & _ & Br).
  unfold join_spec, gjoin. destruct b as [|b0 bt] eqn:Eb; [reflexivity|]. rewrite <- Eb in *.
  rewrite Bp, Av, Br, Ar, Ad. destruct (g_rooted wany b); [reflexivity|].
  destruct a as [|a0 at_]; [reflexivity|]. cbn [orb]. rewrite orb_false_r. rewrite ends_in_sep_g. reflexivity.
Qed.
Theorem join_spec_disk d ra b : s_alpha d = true -> noprefix b = true ->
  join_spec (d :: 58 :: ra) b = d :: 58 :: WJOIN ra b.
Proof.
  intros Ha Hb. destruct (sp_plain b Hb) as (Bp & _ & _ & _ & Br).
  unfold join_spec, gjoin. destruct b as [|b0 bt] eqn:Eb; [reflexivity|]. rewrite <- Eb in *.
  rewrite Bp, Br. unfold sp_verbatim, sp_prefix_raw, sp_bare_drive, sp_prefix. rewrite (wspec_disk d ra Ha). cbn [k_verbatim].
  destruct (g_rooted wany b); [reflexivity|].
  destruct ra as [|r0 rt] eqn:Er.
  - (* bare drive *) cbn [gcomps map]. unfold gcomps. cbn. reflexivity.
  - rewrite <- Er.
    assert (Hne : WCOMPS ra <> []) by (intros X; apply gcomps_nil_inv in X; rewrite Er in X; discriminate).
    assert (Hbd : match map WC (WCOMPS ra) with [] => true | _ => false end = false) by (destruct (WCOMPS ra); [congruence | reflexivity]).
    cbn [orb]. replace (match WPrefix [d; 58] (Disk (s_upper d)) :: map WC (WCOMPS ra) with [WPrefix _ (Disk _)] => true | _ => false end) with false
      by (destruct (WCOMPS ra); [congruence | reflexivity]).
    rewrite orb_false_r.
    assert (He : ends_in_sep (d :: 58 :: ra) = g_ends_sep wany ra).
    { unfold ends_in_sep, g_ends_sep. rewrite Er. cbn [rev]. destruct (rev rt ++ [r0]) as [|z zs] eqn:Ez; [destruct (rev rt); discriminate|].
      cbn [app]. reflexivity. }
    rewrite He. rewrite Er. destruct (g_ends_sep wany (r0 :: rt)); reflexivity.
Qed.

(* joining keeps the fragment *)
Lemma noprefix_hd2 a b t t' : noprefix (a :: b :: t) = noprefix (a :: b :: t').
Proof. unfold noprefix, disk_at. cbn [two_seps]. destruct (s_alpha a && (b =? 58)); reflexivity. Qed.
Lemma noprefix_join a b : noprefix a = true -> noprefix b = true -> g_rooted wany b = false ->
  noprefix (WJOIN a b) = true.
Proof.
  intros Ha Hb Hr. unfold gjoin. destruct b as [|b0 bt] eqn:Eb; [exact Ha|]. rewrite <- Eb in *. rewrite Hr.
  destruct a as [|x [|y t]]; [exact Hb | |].
  - unfold g_ends_sep. cbn [rev app]. destruct (wany x) eqn:Hx.
    + cbn [app]. rewrite Eb. unfold noprefix. cbn [two_seps]. unfold g_rooted in Hr. rewrite Eb in Hr. cbn [root_ok] in Hr.
      change (s_sep_any b0) with (wany b0). rewrite Hr, andb_false_r. cbn [negb andb].
      unfold disk_at. change (s_sep_any x) with (wany x) in *.
      destruct (s_alpha x) eqn:Eal; [pose proof (alpha_not_sep x Eal) as X; change (s_sep_any x) with (wany x) in X; congruence|]. reflexivity.
    + cbn [app]. unfold noprefix. cbn [two_seps]. change (s_sep_any x) with (wany x). rewrite Hx. cbn [andb negb].
      unfold disk_at. rewrite andb_false_r. reflexivity.
  - destruct (g_ends_sep wany (x :: y :: t)); cbn [app]; rewrite <- Ha; apply noprefix_hd2.
Qed.

(* ---- the component-level reading of the joining rules, simple paths ---- *)
(* a: no prefix (and not starting with two separators), b: relative, prefix-free, non-empty *)
Theorem wspec_join_plain a b : noprefix a = true -> noprefix b = true -> g_rooted wany b = false -> b <> [] ->
  wspec (w_push a b) = match a with [] => wspec b | _ => wspec a ++ map WC (gadded wany b) end.
Proof.
  intros Ha Hb Hr Hne. rewrite w_push_join_spec, (join_spec_plain a b Ha Hb).
  rewrite (wspec_plain _ (noprefix_join a b Ha Hb Hr)).
  rewrite (gjoin_comps_all wany 92 wany_92). destruct b as [|b0 bt] eqn:Eb; [congruence|]. rewrite <- Eb in *. rewrite Hr.
  destruct a as [|a0 at_]; [rewrite (wspec_plain b Hb); reflexivity|].
  rewrite (wspec_plain _ Ha), map_app. reflexivity.
Qed.
(* a: drive prefix X: followed by anything *)
Theorem wspec_join_disk d ra b : s_alpha d = true -> noprefix b = true -> g_rooted wany b = false -> b <> [] ->
  wspec (w_push (d :: 58 :: ra) b) =
  match ra with
  | [] => WPrefix [d; 58] (Disk (s_upper d)) :: map WC (WCOMPS b)          (* bare drive: a leading "." of b still starts the path *)
  | _ => wspec (d :: 58 :: ra) ++ map WC (gadded wany b)
  end.
Proof.
  intros Ha Hb Hr Hne. rewrite w_push_join_spec, (join_spec_disk d ra b Ha Hb).
  rewrite (wspec_disk d _ Ha). rewrite (gjoin_comps_all wany 92 wany_92).
  destruct b as [|b0 bt] eqn:Eb; [congruence|]. rewrite <- Eb in *. rewrite Hr.
  destruct ra as [|r0 rt]; [reflexivity|]. rewrite (wspec_disk d _ Ha), map_app. reflexivity.
Qed.
(* a rooted, prefix-free b replaces everything but the drive *)
Theorem wspec_join_rooted_disk d ra b : s_alpha d = true -> noprefix b = true -> g_rooted wany b = true ->
  wspec (w_push (d :: 58 :: ra) b) = WPrefix [d; 58] (Disk (s_upper d)) :: map WC (WCOMPS b).
Proof.
  intros Ha Hb Hr. rewrite w_push_join_spec, (join_spec_disk d ra b Ha Hb). rewrite (wspec_disk d _ Ha).
  rewrite (gjoin_comps_all wany 92 wany_92). destruct b as [|b0 bt] eqn:Eb; [discriminate|]. rewrite <- Eb in *. rewrite Hr. reflexivity.
Qed.

(* ---- what the checked join accepts lies in the fragment ---- *)
Lemma wspec_two_seps_first p : two_seps p = true ->
  match wspec p with WPrefix _ _ :: _ => True | WC Root :: _ => True | _ => False end.
Proof.
  intros H. unfold wspec. destruct (wprefix_grammar p) as [[k rest]|]; [exact I|].
  destruct p as [|a [|b t]]; try discriminate. cbn [two_seps] in H. apply andb_true_iff in H as [Ha _].
  unfold spec_comps.
  assert (Hs : s_wsep (s_norm (a :: b :: t)) a = true).
  { unfold s_wsep. destruct (s_norm (a :: b :: t)) eqn:En; [exact Ha|].
    unfold s_norm in En. destruct t as [|c [|d t']]; try discriminate.
    apply negb_false_iff in En. apply andb_true_iff in En as [En _]. apply andb_true_iff in En as [En _]. apply andb_true_iff in En as [En _].
    rewrite En. reflexivity. }
  rewrite Hs. exact I.
Qed.
Lemma scan_none_simple p : w_scan (wspec p) O = None -> noprefix p = true /\ g_rooted wany p = false.
Proof.
  intros H. destruct (two_seps p) eqn:E2.
  - exfalso. pose proof (wspec_two_seps_first p E2) as F. destruct (wspec p) as [|[r k|[| | |n]] t]; try contradiction; cbn in H; discriminate.
  - destruct (disk_at p) as [[dl r]|] eqn:Ed.
    + exfalso. (* a drive prefix: the scan reports it *)
      assert (Hg : exists k rest, wprefix_grammar p = Some (k, rest)).
      { destruct p as [|a [|b [|c [|d rest]]]]; unfold wprefix_grammar; cbn [two_seps] in E2; try (cbn in Ed; discriminate).
        - rewrite E2, Ed. eauto.
        - rewrite E2, Ed. eauto.
        - rewrite E2. cbn [andb]. rewrite Ed. eauto. }
      destruct Hg as (k & rest & Hg). unfold wspec in H. rewrite Hg in H. cbn in H. discriminate.
    + assert (Hn : noprefix p = true) by (unfold noprefix; rewrite E2, Ed; reflexivity).
      split; [exact Hn|]. rewrite (wspec_plain p Hn) in H. pose proof (rooted_first p) as R.
      destruct (g_rooted wany p); [|reflexivity]. destruct (WCOMPS p) as [|[| | |n] t]; try discriminate.
Qed.
(* the checked join onto a simple base: on success the result's components begin with exactly the
   base's components, followed by what p adds (its components minus a leading ".") *)
Theorem w_push_checked_contains_plain base p : noprefix base = true -> base <> [] -> p <> [] ->
  w_scan (wspec p) O = None ->
  w_push_checked base p = (w_push base p, None) /\ wspec (w_push base p) = wspec base ++ map WC (gadded wany p).
Proof.
  intros Hb Hne Hp Hs. destruct (scan_none_simple p Hs) as (Hn & Hr). split.
  - unfold w_push_checked. rewrite w_components_wspec, Hs. reflexivity.
  - rewrite (wspec_join_plain base p Hb Hn Hr Hp). destruct base; [congruence | reflexivity].
Qed.
Theorem w_push_checked_contains_disk d ra p : s_alpha d = true -> ra <> [] -> p <> [] ->
  w_scan (wspec p) O = None ->
  w_push_checked (d :: 58 :: ra) p = (w_push (d :: 58 :: ra) p, None) /\
  wspec (w_push (d :: 58 :: ra) p) = wspec (d :: 58 :: ra) ++ map WC (gadded wany p).
Proof.
  intros Ha Hne Hp Hs. destruct (scan_none_simple p Hs) as (Hn & Hr). split.
  - unfold w_push_checked. rewrite w_components_wspec, Hs. reflexivity.
  - rewrite (wspec_join_disk d ra p Ha Hn Hr Hp). destruct ra; [congruence | reflexivity].
Qed.

(* ---- the Windows scan, declaratively: success iff no prefix, no root, valid names, never climbing ---- *)
Definition wcnt_parent (cs : list wcomp) : nat := length (filter wc_is_parent cs).
Definition wcnt_normal (cs : list wcomp) : nat := length (filter wc_is_normal cs).
Definition w_never_climbs (cs : list wcomp) (d : nat) : Prop :=
  forall k, (wcnt_parent (firstn k cs) <= d + wcnt_normal (firstn k cs))%nat.
Definition w_plain_comp (c : wcomp) : bool := match c with WPrefix _ _ | WC Root => false | _ => true end.
Lemma w_nc_other c cs d : wc_is_parent c = false -> wc_is_normal c = false -> (w_never_climbs (c :: cs) d <-> w_never_climbs cs d).
Proof.
  intros Hp Hn. unfold w_never_climbs, wcnt_parent, wcnt_normal. split; intros H k.
  - specialize (H (S k)). cbn [firstn filter] in H. rewrite Hp, Hn in H. exact H.
  - destruct k; [cbn; lia|]. cbn [firstn filter]. rewrite Hp, Hn. apply H.
Qed.
Lemma w_nc_normal n cs d : w_never_climbs (WC (Normal n) :: cs) d <-> w_never_climbs cs (S d).
Proof.
  unfold w_never_climbs, wcnt_parent, wcnt_normal. split; intros H k.
  - specialize (H (S k)). cbn [firstn filter wc_is_parent wc_is_normal length] in H. lia.
  - destruct k; [cbn; lia|]. cbn [firstn filter wc_is_parent wc_is_normal length]. specialize (H k). lia.
Qed.
Lemma w_nc_parent cs d : w_never_climbs (WC Parent :: cs) d <-> (exists d', d = S d' /\ w_never_climbs cs d').
Proof.
  unfold w_never_climbs, wcnt_parent, wcnt_normal. split.
  - intros H. destruct d as [|d'].
    + specialize (H 1%nat). cbn in H. lia.
    + exists d'. split; [reflexivity|]. intros k. specialize (H (S k)). cbn [firstn filter wc_is_parent wc_is_normal length] in H. lia.
  - intros (d' & -> & H) k. destruct k; [cbn; lia|]. cbn [firstn filter wc_is_parent wc_is_normal length]. specialize (H k). lia.
Qed.
Theorem w_scan_none_iff cs : forall d,
  w_scan cs d = None <-> (forallb w_plain_comp cs = true /\ forallb wc_is_valid cs = true /\ w_never_climbs cs d).
Proof.
  induction cs as [|c cs IH]; intros d.
  - cbn. split; [intros _; repeat split; intros k; destruct k; cbn; lia | reflexivity].
  - destruct c as [raw k|[| | |n]]; cbn [w_scan forallb w_plain_comp wc_is_valid andb].
    + split; [discriminate | intros (H & _); discriminate].
    + split; [discriminate | intros (H & _); discriminate].
    + rewrite IH. rewrite (w_nc_other (WC Cur) cs d eq_refl eq_refl). reflexivity.
    + destruct d as [|d'].
      * split; [discriminate|]. intros (_ & _ & H). apply w_nc_parent in H as (d' & X & _). discriminate.
      * rewrite IH. rewrite w_nc_parent. split.
        -- intros (A & B & C). repeat split; try assumption. exists d'. auto.
        -- intros (A & B & (d2 & X & C)). inversion X; subst. auto.
    + destruct (name_valid w_forbidden n) eqn:Hv.
      * rewrite IH. rewrite w_nc_normal. reflexivity.
      * split; [discriminate | intros (_ & H & _); discriminate].
Qed.
