(* Stability of the Windows prefix parse under truncation of what follows the prefix, and with it the
   re-parse clause of C09 for Windows: the parent of a path, read again from scratch, has exactly the
   components of the path without the last one.
   If [prefix (a ++ r) = Some (k, r)] (a = the raw prefix) and r' is a leading piece of r, then
   [prefix (a ++ r') = Some (k, r')] -- with one exception that the statement carries: the verbatim prefix
   with the empty name (\\?\ followed by a separator) truncated to nothing, which reads as UNC("?"). *)
From Coq Require Import List NArith Bool Lia Arith.
Import ListNotations.
From TP Require Import Core CoreProofs Path Unix Win WinProofs.
Open Scope N_scope.

Definition lead (r' r : list byte) : Prop := exists j, r = r' ++ j.
Lemma lead_refl r : lead r r.  Proof. exists []. symmetry. apply app_nil_r. Qed.
Lemma lead_nil r : lead [] r.  Proof. exists r. reflexivity. Qed.
Lemma lead_nil_inv r' : lead r' [] -> r' = [].
Proof. intros (j & H). destruct r'; [reflexivity | discriminate]. Qed.
Lemma lead_cons_inv r' x t : lead r' (x :: t) -> r' = [] \/ exists t', r' = x :: t' /\ lead t' t.
Proof.
  intros (j & H). destruct r' as [|y t']; [left; reflexivity|]. right. cbn in H. inversion H; subst. exists t'. split; [reflexivity | exists j; reflexivity].
Qed.
Lemma lead_app a r' r : lead r' r -> lead (a ++ r') (a ++ r).
Proof. intros (j & ->). exists j. rewrite app_assoc. reflexivity. Qed.

(* ---------- the combinators: what they consume, and stability when the rest is shortened ---------- *)
Lemma p_sep_st norm l r : p_sep norm l = Some r ->
  exists b, l = b :: r /\ wsep norm b = true /\ forall r', p_sep norm (b :: r') = Some r'.
Proof.
  unfold p_sep. destruct l as [|b t]; [discriminate|]. destruct (wsep norm b) eqn:Hb; [|discriminate].
  intros X; inversion X; subst. exists b. split; [reflexivity|]. split; [exact Hb|]. intros r'. rewrite Hb. reflexivity.
Qed.
Lemma p_byte_st x l r : p_byte x l = Some r -> l = x :: r /\ forall r', p_byte x (x :: r') = Some r'.
Proof.
  unfold p_byte. destruct l as [|b t]; [discriminate|]. destruct (b =? x) eqn:Hb; [|discriminate].
  intros X; inversion X; subst. apply N.eqb_eq in Hb. subst b. split; [reflexivity|]. intros r'. rewrite N.eqb_refl. reflexivity.
Qed.
Lemma span_app_gen (f : byte -> bool) n r : forallb (fun b => negb (f b)) n = true ->
  (r = [] \/ exists s t, r = s :: t /\ f s = true) -> span_nsep f (n ++ r) = (n, r).
Proof.
  induction n as [|x n IH]; intros Hn Hr.
  - destruct Hr as [-> | (s & t & -> & Hs)]; [reflexivity | cbn; rewrite Hs; reflexivity].
  - cbn [forallb] in Hn. apply andb_true_iff in Hn as [Hx Hn]. apply negb_true_iff in Hx.
    cbn [app span_nsep]. rewrite Hx. rewrite (IH Hn Hr). reflexivity.
Qed.
Lemma p_normal_st norm l n r : p_normal norm l = Some (n, r) ->
  l = n ++ r /\ n <> [] /\ forallb (fun b => negb (wsep norm b)) n = true /\
  (r = [] \/ exists s t, r = s :: t /\ wsep norm s = true) /\
  forall r', lead r' r -> p_normal norm (n ++ r') = Some (n, r').
Proof.
  unfold p_normal. destruct (span_nsep (wsep norm) l) as [n' r0] eqn:E. destruct n' as [|x t] eqn:En; [discriminate|].
  intros X; inversion X; subst n r0. rewrite <- En in *.
  destruct (span_spec (wsep norm) _ _ _ E) as (El & Hn & Hr).
  split; [exact El|]. split; [rewrite En; discriminate|]. split; [exact Hn|]. split; [exact Hr|].
  intros r' Hl.
  assert (Hr' : r' = [] \/ exists s t0, r' = s :: t0 /\ wsep norm s = true).
  { destruct Hr as [-> | (s & t0 & -> & Hs)].
    - left. apply lead_nil_inv. exact Hl.
    - destruct (lead_cons_inv _ _ _ Hl) as [-> | (t' & -> & _)]; [left; reflexivity | right; exists s, t'; auto]. }
  rewrite (span_app_gen (wsep norm) n' r' Hn Hr'). rewrite En. reflexivity.
Qed.
Lemma p_normal_none norm l : p_normal norm l = None -> l = [] \/ exists s t, l = s :: t /\ wsep norm s = true.
Proof.
  unfold p_normal. destruct l as [|b t]; [left; reflexivity|]. cbn [span_nsep]. destruct (wsep norm b) eqn:Hb.
  - intros _. right. exists b, t. auto.
  - destruct (span_nsep (wsep norm) t). discriminate.
Qed.
Lemma p_normal_none_lead norm l l' : p_normal norm l = None -> lead l' l -> p_normal norm l' = None.
Proof.
  intros H Hl. destruct (p_normal_none norm l H) as [-> | (s & t & -> & Hs)].
  - apply lead_nil_inv in Hl. subst. reflexivity.
  - destruct (lead_cons_inv _ _ _ Hl) as [-> | (t' & -> & _)]; [reflexivity|]. unfold p_normal. cbn [span_nsep]. rewrite Hs. reflexivity.
Qed.
Lemma p_verbatim_st l r : p_verbatim l = Some r ->
  exists a, l = a ++ r /\ length a = 4%nat /\ forall r', p_verbatim (a ++ r') = Some r'.
Proof.
  unfold p_verbatim. destruct (p_sep true l) as [l1|] eqn:E1; [|discriminate].
  destruct (p_sep true l1) as [l2|] eqn:E2; [|discriminate].
  destruct (p_byte 63 l2) as [l3|] eqn:E3; [|discriminate]. intros E4.
  destruct (p_sep_st _ _ _ E1) as (b1 & -> & H1 & S1).
  destruct (p_sep_st _ _ _ E2) as (b2 & -> & H2 & S2).
  destruct (p_byte_st _ _ _ E3) as (-> & S3).
  destruct (p_sep_st _ _ _ E4) as (b4 & -> & H4 & S4).
  exists [b1; b2; 63; b4]. split; [reflexivity|]. split; [reflexivity|].
  intros r'. cbn [app]. rewrite S1, S2, S3, S4. reflexivity.
Qed.
Lemma p_disk_st l d r : p_disk l = Some (d, r) ->
  exists x, l = x :: 58 :: r /\ is_ascii_alpha x = true /\ forall r', p_disk (x :: 58 :: r') = Some (d, r').
Proof.
  unfold p_disk. destruct l as [|x t]; [discriminate|]. destruct (is_ascii_alpha x) eqn:Ha; [|discriminate].
  destruct (p_byte 58 t) as [r0|] eqn:E; [|discriminate]. intros X; inversion X; subst.
  destruct (p_byte_st _ _ _ E) as (-> & S). exists x. split; [reflexivity|]. split; [exact Ha|].
  intros r'. rewrite Ha, S. reflexivity.
Qed.
Lemma p_unc_lit_st l r : p_unc_lit l = Some r -> l = [85; 78; 67] ++ r /\ forall r', p_unc_lit ([85; 78; 67] ++ r') = Some r'.
Proof.
  unfold p_unc_lit. destruct (starts_with_b l [85; 78; 67]) eqn:E; [|discriminate]. intros X; inversion X; subst.
  split; [apply (starts_with_b_app _ _ E)|]. intros r'. cbn. destruct r'; reflexivity.
Qed.
Lemma p_unc_tail_st norm l srv sh r : p_unc_tail norm l = Some (srv, sh, r) ->
  exists a, l = a ++ r /\ a <> [] /\ (r = [] \/ (3 <= length a)%nat \/ True) /\
            forall r', lead r' r -> p_unc_tail norm (a ++ r') = Some (srv, sh, r').
Proof.
  unfold p_unc_tail. destruct (p_normal norm l) as [[s l1]|] eqn:E1; [|discriminate].
  destruct (p_normal_st _ _ _ _ E1) as (-> & Hs & Hns & Hl1 & S1).
  destruct (p_sep norm l1) as [r1|] eqn:E2.
  - destruct (p_sep_st _ _ _ E2) as (b & -> & Hb & S2).
    destruct (p_normal norm r1) as [[sh' l3]|] eqn:E3; intros X; inversion X; subst.
    + destruct (p_normal_st _ _ _ _ E3) as (-> & Hsh & _ & _ & S3).
      exists (srv ++ b :: sh). split; [rewrite <- app_assoc; reflexivity|]. split; [destruct srv; [congruence | discriminate]|].
      split; [right; right; exact I|]. intros r' Hl.
      rewrite <- app_assoc. cbn [app].
      assert (Hl1' : lead (b :: sh ++ r') (b :: sh ++ r)) by (apply (lead_app [b]); apply lead_app; exact Hl).
      rewrite (S1 _ Hl1'). rewrite S2. rewrite (S3 r' Hl). reflexivity.
    + exists (srv ++ [b]). split; [rewrite <- app_assoc; reflexivity|]. split; [destruct srv; [congruence | discriminate]|].
      split; [right; right; exact I|]. intros r' Hl.
      rewrite <- app_assoc. cbn [app].
      assert (Hl1' : lead (b :: r') (b :: r)) by (apply (lead_app [b]); exact Hl).
      rewrite (S1 _ Hl1'). rewrite S2. rewrite (p_normal_none_lead norm r r' E3 Hl). reflexivity.
  - (* no separator after the server: the input ends there *)
    assert (El1 : l1 = []).
    { destruct Hl1 as [-> | (s0 & t & -> & Hs0)]; [reflexivity|]. unfold p_sep in E2. rewrite Hs0 in E2. discriminate. }
    subst l1. assert (En : p_normal norm [] = None) by reflexivity. rewrite En.
    intros X; inversion X; subst. exists srv. split; [reflexivity|]. split; [exact Hs|].
    split; [left; reflexivity|]. intros r' Hl. apply lead_nil_inv in Hl. subst r'.
    rewrite E1. rewrite E2. rewrite En. reflexivity.
Qed.

(* ---------- success on a leading piece of the input implies success on the input ---------- *)
Lemma p_sep_mono norm l' l r' : lead l' l -> p_sep norm l' = Some r' -> exists r, p_sep norm l = Some r /\ lead r' r.
Proof.
  intros (j & ->) H. destruct (p_sep_st _ _ _ H) as (b & -> & Hb & S). exists (r' ++ j). cbn [app]. split; [apply S | exists j; reflexivity].
Qed.
Lemma p_byte_mono x l' l r' : lead l' l -> p_byte x l' = Some r' -> exists r, p_byte x l = Some r /\ lead r' r.
Proof.
  intros (j & ->) H. destruct (p_byte_st _ _ _ H) as (-> & S). exists (r' ++ j). cbn [app]. split; [apply S | exists j; reflexivity].
Qed.
Lemma p_verbatim_mono l' l r' : lead l' l -> p_verbatim l' = Some r' -> exists r, p_verbatim l = Some r /\ lead r' r.
Proof.
  intros (j & ->) H. destruct (p_verbatim_st _ _ H) as (a & -> & _ & S). exists (r' ++ j). rewrite <- app_assoc. split; [apply S | exists j; reflexivity].
Qed.
Lemma p_unc_lit_mono l' l r' : lead l' l -> p_unc_lit l' = Some r' -> exists r, p_unc_lit l = Some r /\ lead r' r.
Proof.
  intros (j & ->) H. destruct (p_unc_lit_st _ _ H) as (-> & S). exists (r' ++ j). rewrite <- app_assoc. split; [apply S | exists j; reflexivity].
Qed.
Lemma p_disk_mono l' l d r' : lead l' l -> p_disk l' = Some (d, r') -> exists r, p_disk l = Some (d, r).
Proof.
  intros (j & ->) H. destruct (p_disk_st _ _ _ H) as (x & -> & _ & S). exists (r' ++ j). cbn [app]. apply S.
Qed.
Lemma p_normal_mono norm l' l n' r' : lead l' l -> p_normal norm l' = Some (n', r') -> exists n r, p_normal norm l = Some (n, r).
Proof.
  intros (j & ->) H. destruct (p_normal_st _ _ _ _ H) as (-> & Hn & _).
  unfold p_normal. destruct n' as [|x t]; [congruence|]. rewrite <- !app_assoc. cbn [app span_nsep].
  unfold p_normal in H. cbn [app span_nsep] in H. destruct (wsep norm x) eqn:Hx; [discriminate|].
  destruct (span_nsep (wsep norm) (t ++ r' ++ j)) as [n1 r1]. eauto.
Qed.
Lemma p_unc_tail_mono norm l' l x : lead l' l -> p_unc_tail norm l' = Some x -> exists y, p_unc_tail norm l = Some y.
Proof.
  intros Hl. unfold p_unc_tail. destruct (p_normal norm l') as [[s l1]|] eqn:E1; [|discriminate]. intros _.
  destruct (p_normal_mono _ _ _ _ _ Hl E1) as (n & r & E). rewrite E.
  destruct (p_normal norm match p_sep norm r with Some r0 => r0 | None => r end) as [[sh l3]|]; eauto.
Qed.
Lemma exact_verbatim_lead l' l : (4 <= length l')%nat -> lead l' l -> exact_verbatim l = exact_verbatim l'.
Proof.
  intros H (j & ->). unfold exact_verbatim. destruct l' as [|a [|b [|c [|d t]]]]; cbn [length] in H; try lia.
  cbn [app starts_with_b].
  assert (E : forall z : list byte, starts_with_b z [] = true) by (intros z; destruct z; reflexivity). rewrite !E. reflexivity.
Qed.

Lemma vu_mono l' l x : lead l' l -> prefix_verbatim_unc l' = Some x -> exists y, prefix_verbatim_unc l = Some y.
Proof.
  intros Hl. unfold prefix_verbatim_unc.
  destruct (p_verbatim l') as [l0'|] eqn:E0; [|discriminate].
  assert (H4 : (4 <= length l')%nat) by (destruct (p_verbatim_st _ _ E0) as (a & -> & Ha & _); rewrite app_length; lia).
  rewrite (exact_verbatim_lead l' l H4 Hl).
  destruct (p_verbatim_mono _ _ _ Hl E0) as (l0 & F0 & L0). rewrite F0.
  destruct (p_unc_lit l0') as [l1'|] eqn:E1; [|discriminate].
  destruct (p_unc_lit_mono _ _ _ L0 E1) as (l1 & F1 & L1). rewrite F1.
  destruct (p_sep (negb (exact_verbatim l')) l1') as [l2'|] eqn:E2; [|discriminate].
  destruct (p_sep_mono _ _ _ _ L1 E2) as (l2 & F2 & L2). rewrite F2.
  destruct (p_unc_tail (negb (exact_verbatim l')) l2') as [[[srv sh] r']|] eqn:E3; [|discriminate]. intros _.
  destruct (p_unc_tail_mono _ _ _ _ L2 E3) as ([[srv2 sh2] r2] & F3). rewrite F3. eauto.
Qed.
Lemma vd_mono l' l x : lead l' l -> prefix_verbatim_disk l' = Some x -> exists y, prefix_verbatim_disk l = Some y.
Proof.
  intros Hl. unfold prefix_verbatim_disk.
  destruct (p_verbatim l') as [l0'|] eqn:E0; [|discriminate].
  destruct (p_verbatim_mono _ _ _ Hl E0) as (l0 & F0 & L0). rewrite F0.
  destruct (p_disk l0') as [[d r']|] eqn:E1; [|discriminate]. intros _.
  destruct (p_disk_mono _ _ _ _ L0 E1) as (r & F1). rewrite F1. eauto.
Qed.
Lemma dns_mono l' l x : lead l' l -> prefix_device_ns l' = Some x -> exists y, prefix_device_ns l = Some y.
Proof.
  intros Hl. unfold prefix_device_ns.
  destruct (p_sep true l') as [l1'|] eqn:E1; [|discriminate]. destruct (p_sep_mono _ _ _ _ Hl E1) as (l1 & F1 & L1). rewrite F1.
  destruct (p_sep true l1') as [l2'|] eqn:E2; [|discriminate]. destruct (p_sep_mono _ _ _ _ L1 E2) as (l2 & F2 & L2). rewrite F2.
  destruct (p_byte 46 l2') as [l3'|] eqn:E3; [|discriminate]. destruct (p_byte_mono _ _ _ _ L2 E3) as (l3 & F3 & L3). rewrite F3.
  destruct (p_sep true l3') as [l4'|] eqn:E4; [|discriminate]. destruct (p_sep_mono _ _ _ _ L3 E4) as (l4 & F4 & L4). rewrite F4.
  destruct (p_normal true l4') as [[n' r']|] eqn:E5; [|discriminate]. intros _.
  destruct (p_normal_mono _ _ _ _ _ L4 E5) as (n & r & F5). rewrite F5. eauto.
Qed.
Lemma unc_mono l' l x : lead l' l -> prefix_unc l' = Some x -> exists y, prefix_unc l = Some y.
Proof.
  intros Hl. unfold prefix_unc.
  destruct (p_sep true l') as [l1'|] eqn:E1; [|discriminate]. destruct (p_sep_mono _ _ _ _ Hl E1) as (l1 & F1 & L1). rewrite F1.
  destruct (p_sep true l1') as [l2'|] eqn:E2; [|discriminate]. destruct (p_sep_mono _ _ _ _ L1 E2) as (l2 & F2 & L2). rewrite F2.
  destruct (p_unc_tail true l2') as [[[srv sh] r']|] eqn:E3; [|discriminate]. intros _.
  destruct (p_unc_tail_mono _ _ _ _ L2 E3) as ([[srv2 sh2] r2] & F3). rewrite F3. eauto.
Qed.
(* hence: failure on the input is inherited by every leading piece *)
Lemma none_lead {X} (alt : list byte -> option X) (mono : forall l' l x, lead l' l -> alt l' = Some x -> exists y, alt l = Some y)
  l' l : lead l' l -> alt l = None -> alt l' = None.
Proof.
  intros Hl Hn. destruct (alt l') as [x|] eqn:E; [|reflexivity]. destruct (mono l' l x Hl E) as (y & F). congruence.
Qed.

(* ---------- each alternative: what it consumes, and stability under truncation of the rest ---------- *)
Lemma exact_verbatim_hdr h x y : length h = 4%nat -> exact_verbatim (h ++ x) = exact_verbatim (h ++ y).
Proof.
  intros H. rewrite (exact_verbatim_lead h (h ++ x)) by (try lia; exists x; reflexivity).
  rewrite (exact_verbatim_lead h (h ++ y)) by (try lia; exists y; reflexivity). reflexivity.
Qed.
Definition stable (alt : list byte -> option (wprefix * list byte)) (l : list byte) (k : wprefix) (r : list byte) : Prop :=
  exists a, l = a ++ r /\ a <> [] /\ (r = [] \/ (4 <= length a)%nat \/ exact_verbatim l = false /\ forall z, exact_verbatim (a ++ z) = false) /\
            forall r', lead r' r -> alt (a ++ r') = Some (k, r').

Lemma vu_st l k r : prefix_verbatim_unc l = Some (k, r) -> stable prefix_verbatim_unc l k r.
Proof.
  unfold prefix_verbatim_unc. destruct (p_verbatim l) as [l0|] eqn:E0; [|discriminate].
  destruct (p_verbatim_st _ _ E0) as (h & -> & Hh & S0).
  destruct (p_unc_lit l0) as [l1|] eqn:E1; [|discriminate]. destruct (p_unc_lit_st _ _ E1) as (-> & S1).
  destruct (p_sep (negb (exact_verbatim (h ++ [85; 78; 67] ++ l1))) l1) as [l2|] eqn:E2; [|discriminate].
  destruct (p_sep_st _ _ _ E2) as (b & -> & Hb & S2).
  destruct (p_unc_tail (negb (exact_verbatim (h ++ [85; 78; 67] ++ b :: l2))) l2) as [[[srv sh] r0]|] eqn:E3; [|discriminate].
  intros X; inversion X; subst k r0. destruct (p_unc_tail_st _ _ _ _ _ E3) as (a & -> & Ha & _ & S3).
  exists (h ++ [85; 78; 67] ++ b :: a). split; [rewrite <- !app_assoc; reflexivity|].
  split; [destruct h; [discriminate | discriminate]|]. split; [right; left; rewrite app_length; lia|].
  intros r' Hl. rewrite <- !app_assoc. cbn [app].
  rewrite (exact_verbatim_hdr h (85 :: 78 :: 67 :: b :: a ++ r') (85 :: 78 :: 67 :: b :: a ++ r) Hh).
  rewrite S0. cbn [app] in S1. rewrite (S1 (b :: a ++ r')). cbn [app] in E2.
  change (85 :: 78 :: 67 :: b :: a ++ r) with ([85; 78; 67] ++ b :: a ++ r).
  rewrite S2. rewrite (S3 r' Hl). reflexivity.
Qed.
Lemma vd_st l k r : prefix_verbatim_disk l = Some (k, r) -> stable prefix_verbatim_disk l k r.
Proof.
  unfold prefix_verbatim_disk. destruct (p_verbatim l) as [l0|] eqn:E0; [|discriminate].
  destruct (p_verbatim_st _ _ E0) as (h & -> & Hh & S0).
  destruct (p_disk l0) as [[d r0]|] eqn:E1; [|discriminate]. intros X; inversion X; subst k r0.
  destruct (p_disk_st _ _ _ E1) as (x & -> & _ & S1).
  exists (h ++ [x; 58]). split; [rewrite <- app_assoc; reflexivity|]. split; [destruct h; discriminate|].
  split; [right; left; rewrite app_length; lia|].
  intros r' _. rewrite <- app_assoc. cbn [app]. rewrite S0, S1. reflexivity.
Qed.
Lemma dns_st l k r : prefix_device_ns l = Some (k, r) -> stable prefix_device_ns l k r.
Proof.
  unfold prefix_device_ns.
  destruct (p_sep true l) as [l1|] eqn:E1; [|discriminate]. destruct (p_sep_st _ _ _ E1) as (b1 & -> & _ & S1).
  destruct (p_sep true l1) as [l2|] eqn:E2; [|discriminate]. destruct (p_sep_st _ _ _ E2) as (b2 & -> & _ & S2).
  destruct (p_byte 46 l2) as [l3|] eqn:E3; [|discriminate]. destruct (p_byte_st _ _ _ E3) as (-> & S3).
  destruct (p_sep true l3) as [l4|] eqn:E4; [|discriminate]. destruct (p_sep_st _ _ _ E4) as (b4 & -> & _ & S4).
  destruct (p_normal true l4) as [[x r0]|] eqn:E5; [|discriminate]. intros X; inversion X; subst k r0.
  destruct (p_normal_st _ _ _ _ E5) as (-> & Hx & _ & _ & S5).
  exists ([b1; b2; 46; b4] ++ x). split; [rewrite <- app_assoc; reflexivity|]. split; [discriminate|].
  split; [right; left; rewrite app_length; cbn; lia|].
  intros r' Hl. rewrite <- app_assoc. cbn [app]. rewrite S1, S2, S3, S4. rewrite (S5 r' Hl). reflexivity.
Qed.
Lemma unc_st l k r : prefix_unc l = Some (k, r) -> stable prefix_unc l k r.
Proof.
  unfold prefix_unc.
  destruct (p_sep true l) as [l1|] eqn:E1; [|discriminate]. destruct (p_sep_st _ _ _ E1) as (b1 & -> & _ & S1).
  destruct (p_sep true l1) as [l2|] eqn:E2; [|discriminate]. destruct (p_sep_st _ _ _ E2) as (b2 & -> & _ & S2).
  destruct (p_unc_tail true l2) as [[[srv sh] r0]|] eqn:E3; [|discriminate]. intros X; inversion X; subst k r0.
  (* the shape of what p_unc_tail consumed: server, then either nothing more (end of input) or a separator ... *)
  assert (Hshape : exists a, l2 = a ++ r /\ a <> [] /\ (r = [] \/ (2 <= length a)%nat) /\
                             forall r', lead r' r -> p_unc_tail true (a ++ r') = Some (srv, sh, r')).
  { revert E3. unfold p_unc_tail. destruct (p_normal true l2) as [[s l1']|] eqn:F1; [|discriminate].
    destruct (p_normal_st _ _ _ _ F1) as (-> & Hs & Hns & Hl1 & T1).
    destruct (p_sep true l1') as [r1|] eqn:F2.
    - destruct (p_sep_st _ _ _ F2) as (b & -> & Hb & T2).
      destruct (p_normal true r1) as [[sh' l3]|] eqn:F3; intros Y; inversion Y; subst.
      + destruct (p_normal_st _ _ _ _ F3) as (-> & Hsh & _ & _ & T3).
        exists (srv ++ b :: sh). split; [rewrite <- app_assoc; reflexivity|]. split; [destruct srv; [congruence | discriminate]|].
        split; [right; rewrite app_length; cbn; destruct srv; [congruence | cbn; lia]|].
        intros r' Hl. rewrite <- app_assoc. cbn [app].
        assert (Hl1' : lead (b :: sh ++ r') (b :: sh ++ r)) by (apply (lead_app [b]); apply lead_app; exact Hl).
        rewrite (T1 _ Hl1'). rewrite T2. rewrite (T3 r' Hl). reflexivity.
      + exists (srv ++ [b]). split; [rewrite <- app_assoc; reflexivity|]. split; [destruct srv; [congruence | discriminate]|].
        split; [right; rewrite app_length; cbn; destruct srv; [congruence | cbn; lia]|].
        intros r' Hl. rewrite <- app_assoc. cbn [app].
        assert (Hl1' : lead (b :: r') (b :: r)) by (apply (lead_app [b]); exact Hl).
        rewrite (T1 _ Hl1'). rewrite T2. rewrite (p_normal_none_lead true r r' F3 Hl). reflexivity.
    - assert (El1 : l1' = []).
      { destruct Hl1 as [-> | (s0 & t & -> & Hs0)]; [reflexivity|]. unfold p_sep in F2. rewrite Hs0 in F2. discriminate. }
      subst l1'. assert (En : p_normal true [] = None) by reflexivity. rewrite En.
      intros Y; inversion Y; subst. exists srv. split; [reflexivity|]. split; [exact Hs|]. split; [left; reflexivity|].
      intros r' Hl. apply lead_nil_inv in Hl. subst r'. rewrite F1. rewrite F2. rewrite En. reflexivity. }
  destruct Hshape as (a & -> & Ha & Hlen & S3).
  exists ([b1; b2] ++ a). split; [rewrite <- app_assoc; reflexivity|]. split; [discriminate|].
  split; [destruct Hlen as [-> | Hlen]; [left; reflexivity | right; left; rewrite app_length; cbn; lia]|].
  intros r' Hl. rewrite <- app_assoc. cbn [app]. rewrite S1, S2. rewrite (S3 r' Hl). reflexivity.
Qed.
Lemma alpha_not_bs x : is_ascii_alpha x = true -> (x =? 92) = false.
Proof.
  unfold is_ascii_alpha. intros H. apply N.eqb_neq. intros ->. cbn in H. discriminate.
Qed.
Lemma disk_st l k r : prefix_disk l = Some (k, r) -> stable prefix_disk l k r.
Proof.
  unfold prefix_disk. destruct (p_disk l) as [[d r0]|] eqn:E; [|discriminate]. intros X; inversion X; subst k r0.
  destruct (p_disk_st _ _ _ E) as (x & -> & Hx & S).
  exists [x; 58]. split; [reflexivity|]. split; [discriminate|].
  split; [right; right; split; [|intros z]; unfold exact_verbatim; cbn [app starts_with_b]; rewrite (alpha_not_bs x Hx); reflexivity|].
  intros r' _. cbn [app]. rewrite S. reflexivity.
Qed.

(* the plain verbatim alternative: stable, except that the empty name (\\?\ followed by a separator, which is
   not consumed) cannot be truncated to nothing *)
Lemma v_st l k r : prefix_verbatim l = Some (k, r) ->
  exists a, l = a ++ r /\ (4 <= length a)%nat /\
            forall r', lead r' r -> (k = Verbatim [] -> r' = [] -> r = []) ->
                       prefix_verbatim_unc (a ++ r') = None -> prefix_verbatim_disk (a ++ r') = None ->
                       prefix_verbatim (a ++ r') = Some (k, r').
Proof.
  unfold prefix_verbatim at 1. destruct (prefix_verbatim_disk l); [discriminate|]. destruct (prefix_verbatim_unc l); [discriminate|].
  destruct (p_verbatim l) as [l1|] eqn:E0; [|discriminate].
  destruct (p_verbatim_st _ _ E0) as (h & -> & Hh & S0).
  destruct (p_normal (negb (exact_verbatim (h ++ l1))) l1) as [[x r0]|] eqn:E1.
  - intros X; inversion X; subst k r0. destruct (p_normal_st _ _ _ _ E1) as (-> & Hx & _ & _ & S1).
    exists (h ++ x). split; [rewrite <- app_assoc; reflexivity|]. split; [rewrite app_length; lia|].
    intros r' Hl _ Hvu Hvd. unfold prefix_verbatim. rewrite Hvd, Hvu. rewrite <- app_assoc.
    rewrite (exact_verbatim_hdr h (x ++ r') (x ++ r) Hh). rewrite S0. rewrite (S1 r' Hl). reflexivity.
  - destruct (p_sep (negb (exact_verbatim (h ++ l1))) l1) as [l2|] eqn:E2; [|discriminate].
    intros X; inversion X; subst k r. destruct (p_sep_st _ _ _ E2) as (b & -> & Hb & _).
    exists h. split; [reflexivity|]. split; [lia|].
    intros r' Hl Hex Hvu Hvd. unfold prefix_verbatim. rewrite Hvd, Hvu.
    rewrite (exact_verbatim_hdr h r' (b :: l2) Hh). rewrite S0.
    destruct (lead_cons_inv _ _ _ Hl) as [-> | (t' & -> & _)].
    + specialize (Hex eq_refl eq_refl). discriminate.
    + unfold p_normal, p_sep. cbn [span_nsep]. rewrite Hb. reflexivity.
Qed.
Lemma p_verbatim_mono' l' l x : lead l' l -> p_verbatim l' = Some x -> exists y, p_verbatim l = Some y.
Proof. intros Hl H. destruct (p_verbatim_mono _ _ _ Hl H) as (r & F & _). eauto. Qed.
(* failure of the plain verbatim alternative (with the two before it failing too) is inherited *)
Lemma v_none_lead l' l : lead l' l -> prefix_verbatim_unc l = None -> prefix_verbatim_disk l = None ->
  prefix_verbatim l = None -> prefix_verbatim l' = None.
Proof.
  intros Hl Evu Evd H.
  pose proof (none_lead prefix_verbatim_unc vu_mono l' l Hl Evu) as Evu'.
  pose proof (none_lead prefix_verbatim_disk vd_mono l' l Hl Evd) as Evd'.
  unfold prefix_verbatim in *. rewrite Evd, Evu in H. rewrite Evd', Evu'.
  destruct (p_verbatim l') as [l1'|] eqn:E0'; [|reflexivity].
  destruct (p_verbatim_mono _ _ _ Hl E0') as (l1 & E0 & L1). rewrite E0 in H.
  assert (El1 : l1 = []).
  { destruct (p_normal (negb (exact_verbatim l)) l1) as [[x r]|] eqn:E1; [discriminate|].
    destruct (p_normal_none _ _ E1) as [-> | (s & t & -> & Hs)]; [reflexivity|].
    unfold p_sep in H. rewrite Hs in H. discriminate. }
  subst l1. apply lead_nil_inv in L1. subst l1'. reflexivity.
Qed.

(* ---------- the prefix parse as a whole ---------- *)
Theorem prefix_trunc l k r r' : prefix l = Some (k, r) -> lead r' r -> (k = Verbatim [] -> r' = [] -> r = []) ->
  exists a, l = a ++ r /\ a <> [] /\ prefix (a ++ r') = Some (k, r') /\ exact_verbatim (a ++ r') = exact_verbatim l.
Proof.
  intros H Hl Hex. unfold prefix, prefix_alternatives, first_some in H. cbn [map fold_right] in H.
  assert (Unf : forall z, prefix z = match prefix_verbatim_unc z with Some x => Some x | None =>
                           match prefix_verbatim_disk z with Some x => Some x | None =>
                           match prefix_verbatim z with Some x => Some x | None =>
                           match prefix_device_ns z with Some x => Some x | None =>
                           match prefix_unc z with Some x => Some x | None =>
                           match prefix_disk z with Some x => Some x | None => None end end end end end end).
  { intros z. unfold prefix, prefix_alternatives, first_some. cbn [map fold_right].
    destruct (prefix_verbatim_unc z), (prefix_verbatim_disk z), (prefix_verbatim z), (prefix_device_ns z), (prefix_unc z), (prefix_disk z); reflexivity. }
  (* exact_verbatim of the truncated input, from the shape recorded in [stable] *)
  assert (EV : forall a, l = a ++ r -> (r = [] \/ (4 <= length a)%nat \/ exact_verbatim l = false /\ forall z, exact_verbatim (a ++ z) = false) ->
               exact_verbatim (a ++ r') = exact_verbatim l).
  { intros a El [-> | [H4 | (Hf & Hz)]].
    - apply lead_nil_inv in Hl. subst r'. rewrite El. reflexivity.
    - rewrite El. rewrite (exact_verbatim_lead a (a ++ r')) by (try exact H4; exists r'; reflexivity).
      rewrite (exact_verbatim_lead a (a ++ r)) by (try exact H4; exists r; reflexivity). reflexivity.
    - rewrite Hf. apply Hz. }
  assert (Lead : forall a, l = a ++ r -> lead (a ++ r') l) by (intros a ->; apply lead_app; exact Hl).
  destruct (prefix_verbatim_unc l) as [[k1 r1]|] eqn:E1.
  { inversion H; subst k1 r1. destruct (vu_st _ _ _ E1) as (a & El & Ha & Hsh & S).
    exists a. split; [exact El|]. split; [exact Ha|]. split; [|apply EV; assumption]. rewrite Unf. rewrite (S r' Hl). reflexivity. }
  destruct (prefix_verbatim_disk l) as [[k2 r2]|] eqn:E2.
  { inversion H; subst k2 r2. destruct (vd_st _ _ _ E2) as (a & El & Ha & Hsh & S).
    exists a. split; [exact El|]. split; [exact Ha|]. split; [|apply EV; assumption]. rewrite Unf.
    rewrite (none_lead prefix_verbatim_unc vu_mono _ l (Lead a El) E1). rewrite (S r' Hl). reflexivity. }
  destruct (prefix_verbatim l) as [[k3 r3]|] eqn:E3.
  { inversion H; subst k3 r3. destruct (v_st _ _ _ E3) as (a & El & H4 & S).
    exists a. split; [exact El|]. split; [destruct a; [cbn in H4; lia | discriminate]|].
    pose proof (none_lead prefix_verbatim_unc vu_mono _ l (Lead a El) E1) as N1.
    pose proof (none_lead prefix_verbatim_disk vd_mono _ l (Lead a El) E2) as N2.
    split; [|apply EV; [exact El | right; left; exact H4]]. rewrite Unf, N1, N2. rewrite (S r' Hl Hex N1 N2). reflexivity. }
  destruct (prefix_device_ns l) as [[k4 r4]|] eqn:E4.
  { inversion H; subst k4 r4. destruct (dns_st _ _ _ E4) as (a & El & Ha & Hsh & S).
    exists a. split; [exact El|]. split; [exact Ha|]. split; [|apply EV; assumption]. rewrite Unf.
    rewrite (none_lead prefix_verbatim_unc vu_mono _ l (Lead a El) E1), (none_lead prefix_verbatim_disk vd_mono _ l (Lead a El) E2).
    rewrite (v_none_lead _ l (Lead a El) E1 E2 E3). rewrite (S r' Hl). reflexivity. }
  destruct (prefix_unc l) as [[k5 r5]|] eqn:E5.
  { inversion H; subst k5 r5. destruct (unc_st _ _ _ E5) as (a & El & Ha & Hsh & S).
    exists a. split; [exact El|]. split; [exact Ha|]. split; [|apply EV; assumption]. rewrite Unf.
    rewrite (none_lead prefix_verbatim_unc vu_mono _ l (Lead a El) E1), (none_lead prefix_verbatim_disk vd_mono _ l (Lead a El) E2).
    rewrite (v_none_lead _ l (Lead a El) E1 E2 E3). rewrite (none_lead prefix_device_ns dns_mono _ l (Lead a El) E4).
    rewrite (S r' Hl). reflexivity. }
  destruct (prefix_disk l) as [[k6 r6]|] eqn:E6; [|discriminate].
  inversion H; subst k6 r6. destruct (disk_st _ _ _ E6) as (a & El & Ha & Hsh & S).
  exists a. split; [exact El|]. split; [exact Ha|]. split; [|apply EV; assumption]. rewrite Unf.
  rewrite (none_lead prefix_verbatim_unc vu_mono _ l (Lead a El) E1), (none_lead prefix_verbatim_disk vd_mono _ l (Lead a El) E2).
  rewrite (v_none_lead _ l (Lead a El) E1 E2 E3). rewrite (none_lead prefix_device_ns dns_mono _ l (Lead a El) E4).
  rewrite (none_lead prefix_unc unc_mono _ l (Lead a El) E5). rewrite (S r' Hl). reflexivity.
Qed.

Lemma disk_mono l' l x : lead l' l -> prefix_disk l' = Some x -> exists y, prefix_disk l = Some y.
Proof.
  intros Hl. unfold prefix_disk. destruct (p_disk l') as [[d r']|] eqn:E; [|discriminate]. intros _.
  destruct (p_disk_mono _ _ _ _ Hl E) as (r & F). rewrite F. eauto.
Qed.
Lemma prefix_unfold z : prefix z = match prefix_verbatim_unc z with Some x => Some x | None =>
                           match prefix_verbatim_disk z with Some x => Some x | None =>
                           match prefix_verbatim z with Some x => Some x | None =>
                           match prefix_device_ns z with Some x => Some x | None =>
                           match prefix_unc z with Some x => Some x | None =>
                           match prefix_disk z with Some x => Some x | None => None end end end end end end.
Proof.
  unfold prefix, prefix_alternatives, first_some. cbn [map fold_right].
  destruct (prefix_verbatim_unc z), (prefix_verbatim_disk z), (prefix_verbatim z), (prefix_device_ns z), (prefix_unc z), (prefix_disk z); reflexivity.
Qed.
(* no prefix: none on any leading piece either *)
Theorem prefix_none_lead l' l : lead l' l -> prefix l = None -> prefix l' = None.
Proof.
  intros Hl H. rewrite prefix_unfold in H.
  destruct (prefix_verbatim_unc l) eqn:E1; [discriminate|]. destruct (prefix_verbatim_disk l) eqn:E2; [discriminate|].
  destruct (prefix_verbatim l) eqn:E3; [discriminate|]. destruct (prefix_device_ns l) eqn:E4; [discriminate|].
  destruct (prefix_unc l) eqn:E5; [discriminate|]. destruct (prefix_disk l) eqn:E6; [discriminate|].
  rewrite prefix_unfold.
  rewrite (none_lead prefix_verbatim_unc vu_mono _ l Hl E1), (none_lead prefix_verbatim_disk vd_mono _ l Hl E2).
  rewrite (v_none_lead _ l Hl E1 E2 E3). rewrite (none_lead prefix_device_ns dns_mono _ l Hl E4).
  rewrite (none_lead prefix_unc unc_mono _ l Hl E5). rewrite (none_lead prefix_disk disk_mono _ l Hl E6). reflexivity.
Qed.
(* an input that starts with exactly \\?\ always has a prefix *)
Lemma exact_verbatim_has_prefix z : exact_verbatim z = true -> prefix z <> None.
Proof.
  intros H. pose proof (starts_with_b_app _ _ H) as Ez. cbn [length] in Ez.
  set (t := skipn 4 z) in *. rewrite prefix_unfold.
  destruct (prefix_verbatim_unc z) eqn:E1; [discriminate|]. destruct (prefix_verbatim_disk z) eqn:E2; [discriminate|].
  unfold prefix_verbatim. rewrite E2, E1. rewrite H. cbn [negb].
  assert (Ev : p_verbatim z = Some t) by (rewrite Ez; reflexivity). rewrite Ev.
  destruct (p_normal false t) as [[x r]|] eqn:E3; [discriminate|].
  destruct (p_normal_none _ _ E3) as [Et | (s & t0 & Et & Hs)].
  - (* exactly the four bytes: the UNC alternative reads server "?" *)
    rewrite Et. cbn [p_sep]. assert (Ez' : z = [92; 92; 63; 92]) by (rewrite Ez, Et; reflexivity). rewrite Ez'. vm_compute. discriminate.
  - rewrite Et. unfold p_sep. rewrite Hs. discriminate.
Qed.

(* ---------- C09 for Windows: the parent, read again from scratch ---------- *)
From TP Require Import C03Slices.

(* what follows a verbatim prefix with the empty name starts with a separator *)
Lemma verbatim_empty_rest l r : prefix l = Some (Verbatim [], r) -> exists b t, r = b :: t /\ wsep (negb (exact_verbatim l)) b = true.
Proof.
  rewrite prefix_unfold.
  destruct (prefix_verbatim_unc l) as [[k1 r1]|] eqn:E1.
  { intros X; inversion X; subst. exfalso. unfold prefix_verbatim_unc in E1.
    destruct (p_verbatim l); [|discriminate]. destruct (p_unc_lit l0); [|discriminate].
    destruct (p_sep (negb (exact_verbatim l)) l1); [|discriminate].
    destruct (p_unc_tail (negb (exact_verbatim l)) l2) as [[[? ?] ?]|]; discriminate. }
  destruct (prefix_verbatim_disk l) as [[k2 r2]|] eqn:E2.
  { intros X; inversion X; subst. exfalso. unfold prefix_verbatim_disk in E2.
    destruct (p_verbatim l); [|discriminate]. destruct (p_disk l0) as [[? ?]|]; discriminate. }
  destruct (prefix_verbatim l) as [[k3 r3]|] eqn:E3.
  { intros X; inversion X; subst. unfold prefix_verbatim in E3. rewrite E2, E1 in E3.
    destruct (p_verbatim l) as [l1|]; [|discriminate].
    destruct (p_normal (negb (exact_verbatim l)) l1) as [[x r0]|] eqn:F1.
    - inversion E3; subst. destruct (p_normal_st _ _ _ _ F1) as (_ & Hx & _). congruence.
    - destruct (p_sep (negb (exact_verbatim l)) l1) as [l2|] eqn:F2; [|discriminate]. inversion E3; subst.
      destruct (p_sep_st _ _ _ F2) as (b & -> & Hb & _). exists b, l2. auto. }
  destruct (prefix_device_ns l) as [[k4 r4]|] eqn:E4.
  { intros X; inversion X; subst. exfalso. unfold prefix_device_ns in E4.
    destruct (p_sep true l); [|discriminate]. destruct (p_sep true l0); [|discriminate]. destruct (p_byte 46 l1); [|discriminate].
    destruct (p_sep true l2); [|discriminate]. destruct (p_normal true l3) as [[? ?]|]; discriminate. }
  destruct (prefix_unc l) as [[k5 r5]|] eqn:E5.
  { intros X; inversion X; subst. exfalso. unfold prefix_unc in E5.
    destruct (p_sep true l); [|discriminate]. destruct (p_sep true l0); [|discriminate].
    destruct (p_unc_tail true l1) as [[[? ?] ?]|]; discriminate. }
  destruct (prefix_disk l) as [[k6 r6]|] eqn:E6; [|discriminate].
  intros X; inversion X; subst. exfalso. unfold prefix_disk in E6. destruct (p_disk l) as [[? ?]|]; discriminate.
Qed.
(* a back step at the beginning of a rooted window that leaves nothing has handed out the root *)
Lemma back_leaves_nothing_root (is_sep : byte -> bool) norm (Hd : is_sep 46 = false) b t c :
  is_sep b = true -> parse_back is_sep norm AtBeg (b :: t) = Some (c, []) -> c = Root.
Proof.
  intros Hb H. pose proof (back_spec_atbeg is_sep norm Hd (b :: t)) as B. rewrite H in B. destruct B as (E & _).
  rewrite cspec_nil in E. cbn [app] in E. cbn [cspec] in E. unfold lead_extra in E. cbn [root_ok] in E. rewrite Hb in E.
  cbn [app] in E. inversion E. reflexivity.
Qed.

Lemma match_nonempty {A B} (x : list A) (f g : B) : x <> [] -> match x with _ :: _ => f | [] => g end = f.
Proof. destruct x; [congruence | reflexivity]. Qed.

Theorem w_parent_reparse l rr : w_parent l = Some rr -> w_components rr = removelast (w_components l).
Proof.
  intros H. destruct (w_parent_some l rr H) as (s' & c & En & -> & Hc & _ & Hrm).
  rewrite <- Hrm. rewrite w_components_spec. f_equal.
  (* the state after the back step is the fresh state of its own input *)
  unfold w_nextb in En. cbn [w_init w_input w_st w_prefix w_norm] in En.
  unfold plen in En. cbn [w_init w_prefix] in En.
  destruct (prefix_component l) as [[raw k]|] eqn:Ep.
  - destruct (prefix_component_raw l raw k Ep) as (r & Epf & El & Hraw).
    assert (Esk : skipn (length raw) l = r) by (rewrite El, skipn_app, skipn_all, Nat.sub_diag; reflexivity).
    rewrite Esk in En.
    assert (Hr : r <> []).
    { intros ->. cbn in En. inversion En; subst c. discriminate. }
    rewrite (match_nonempty r _ _ Hr) in En.
    destruct (parse_back (wsep (negb (exact_verbatim l))) (negb (exact_verbatim l)) AtBeg r) as [[c0 l']|] eqn:Eb; [|discriminate].
    inversion En; subst c s'. clear En. cbn [w_input].
    assert (Hlead : lead l' r).
    { destruct (back_shape _ _ (wsep_dot _) _ _ _ _ Eb) as [(k0 & seg & j & Esh & _) | (-> & _)].
      - exists (k0 ++ seg ++ j). rewrite Esh. rewrite <- !app_assoc. reflexivity.
      - apply lead_nil. }
    assert (Hnew : firstn (length l' + length raw) l = raw ++ l').
    { destruct Hlead as (j & Ej). rewrite El, Ej. apply firstn_app_exact. lia. }
    rewrite Hnew.
    assert (Hex : k = Verbatim [] -> l' = [] -> r = []).
    { intros -> ->. exfalso. destruct (verbatim_empty_rest l r Epf) as (b & t & Ebt & Hb).
      rewrite Ebt in Eb. pose proof (back_leaves_nothing_root _ _ (wsep_dot _) b t c0 Hb Eb) as Ec0. subst c0. discriminate. }
    destruct (prefix_trunc l k r l' Epf Hlead Hex) as (a & Ela & Ha & Ept & Eev).
    assert (Ea : a = raw).
    { assert (Hlen : length a = length raw).
      { apply (f_equal (@length byte)) in Ela. rewrite El in Ela. rewrite !app_length in Ela. lia. }
      rewrite El in Ela. apply (f_equal (firstn (length raw))) in Ela.
      rewrite firstn_app, firstn_all, Nat.sub_diag in Ela. cbn [firstn] in Ela. rewrite app_nil_r in Ela.
      rewrite <- Hlen in Ela. rewrite firstn_app, firstn_all, Nat.sub_diag in Ela. cbn [firstn] in Ela. rewrite app_nil_r in Ela.
      symmetry. exact Ela. }
    subst a.
    unfold w_init. f_equal.
    + unfold prefix_component. rewrite Ept. rewrite app_length. replace (length raw + length l' - length l')%nat with (length raw) by lia.
      rewrite firstn_app, firstn_all, Nat.sub_diag. cbn [firstn]. rewrite app_nil_r. reflexivity.
    + rewrite Eev. reflexivity.
  - (* no prefix *)
    cbn [skipn] in En.
    assert (Hl0 : l <> []) by (intros ->; cbn in En; discriminate).
    rewrite (match_nonempty l _ _ Hl0) in En.
    destruct (parse_back (wsep (negb (exact_verbatim l))) (negb (exact_verbatim l)) AtBeg l) as [[c0 l']|] eqn:Eb; [|discriminate].
    inversion En; subst c s'. clear En. cbn [w_input].
    assert (Hlead : lead l' l).
    { destruct (back_shape _ _ (wsep_dot _) _ _ _ _ Eb) as [(k0 & seg & j & Esh & _) | (-> & _)].
      - exists (k0 ++ seg ++ j). rewrite Esh at 1. rewrite <- !app_assoc. reflexivity.
      - apply lead_nil. }
    assert (Hnew : firstn (length l' + 0) l = l').
    { destruct Hlead as (j & Ej). rewrite Nat.add_0_r. rewrite Ej. rewrite firstn_app, firstn_all, Nat.sub_diag. cbn. apply app_nil_r. }
    rewrite Hnew.
    assert (Hp : prefix l = None) by (unfold prefix_component in Ep; destruct (prefix l) as [[? ?]|]; [discriminate | reflexivity]).
    assert (Hp' : prefix l' = None) by (apply (prefix_none_lead l' l Hlead Hp)).
    assert (Hev : exact_verbatim l = false) by (destruct (exact_verbatim l) eqn:E; [exfalso; apply (exact_verbatim_has_prefix l E Hp) | reflexivity]).
    assert (Hev' : exact_verbatim l' = false) by (destruct (exact_verbatim l') eqn:E; [exfalso; apply (exact_verbatim_has_prefix l' E Hp') | reflexivity]).
    unfold w_init. f_equal.
    + unfold prefix_component. rewrite Hp'. reflexivity.
    + rewrite Hev, Hev'. reflexivity.
Qed.

(* hence the ancestors chain: every entry, read again from scratch, is the previous one without its last component *)
Fixpoint comp_chain (xs : list (list byte)) : Prop :=
  match xs with
  | a :: (b :: _) as r => w_components b = removelast (w_components a) /\ comp_chain r
  | _ => True
  end.
Lemma w_ancestors_fuel_chain : forall fuel cur,
  comp_chain (ancestors_fuel wstate wcomp w_init w_nextb w_remaining wc_is_normal wc_is_parent wc_is_current fuel cur).
Proof.
  induction fuel as [|f IH]; intros cur; [exact I|].
  cbn [ancestors_fuel]. destruct cur as [p|]; [|exact I].
  fold (w_parent p). specialize (IH (w_parent p)).
  destruct f as [|f']; [exact I|]. cbn [ancestors_fuel] in *.
  destruct (w_parent p) as [q|] eqn:Eq; [|exact I].
  cbn [comp_chain]. split; [apply (w_parent_reparse p q Eq) | exact IH].
Qed.
Theorem w_ancestors_chain l : comp_chain (w_ancestors l).
Proof. unfold w_ancestors, ancestors. apply w_ancestors_fuel_chain. Qed.
