(* Corollaries for C12 / C13 at Windows: once the result of set_file_name / set_extension is known to read back
   as "the old components with the last replaced by the new name", its file name is the new name and its parent,
   read again, has the components of the old parent. *)
From Coq Require Import List NArith Bool Lia Arith.
Import ListNotations.
From TP Require Import Core CoreProofs CoreSched Path Unix Win Spec C02Proofs WinProofs WinTrunc.
Open Scope N_scope.

Lemma w_file_name_of_last l cs n : wspec l = cs ++ [WC (Normal n)] -> w_file_name l = Some n.
Proof. intros H. rewrite w_file_name_spec, w_components_wspec, H, rev_app_distr. reflexivity. Qed.

(* two paths whose components agree except for the last one have parents with the same components *)
Lemma w_parent_of_replaced l l' cs c c' r r' : wspec l = cs ++ [c] -> wspec l' = cs ++ [c'] ->
  w_parent l = Some r -> w_parent l' = Some r' -> wspec r' = wspec r.
Proof.
  intros H H' Hr Hr'. rewrite <- !w_components_wspec.
  rewrite (w_parent_reparse l r Hr), (w_parent_reparse l' r' Hr'). rewrite !w_components_wspec, H, H', !removelast_last. reflexivity.
Qed.
Theorem w_replaced_last l l' m : wspec l' = removelast (wspec l) ++ [WC (Normal m)] ->
  w_file_name l' = Some m /\
  (forall r r', w_parent l = Some r -> w_parent l' = Some r' -> wspec r' = wspec r).
Proof.
  intros H. split; [apply (w_file_name_of_last l' _ m H)|].
  intros r r' Hr Hr'. rewrite <- !w_components_wspec.
  rewrite (w_parent_reparse l r Hr), (w_parent_reparse l' r' Hr'). rewrite !w_components_wspec, H, removelast_last. reflexivity.
Qed.
