(* C14: validity is preserved by the buffer-building operations of the model. *)
From Coq Require Import List NArith Bool Lia.
Import ListNotations.
From TP Require Import Core Path Unix Win Utf8 Utf8Proofs.
Open Scope N_scope.

Lemma Valid_ascii b : b < 128 -> Valid [b].
Proof. intros H. apply (V_step _ 1%nat); [discriminate | | constructor]. unfold utf8_step. apply N.ltb_lt in H. rewrite H. reflexivity. Qed.
Lemma Valid_cons_ascii b l : b < 128 -> Valid l -> Valid (b :: l).
Proof. intros Hb Hl. change (b :: l) with ([b] ++ l). apply Valid_app; [apply Valid_ascii; exact Hb | exact Hl]. Qed.

(* UnixEncoding::push keeps valid UTF-8 valid *)
Theorem u_push_valid cur p : Valid cur -> Valid p -> Valid (u_push cur p).
Proof.
  intros Hc Hp. unfold u_push. destruct p as [|x t] eqn:Ep; [exact Hc|]. rewrite <- Ep in *.
  destruct (u_is_absolute p); [exact Hp|]. destruct cur as [|y s] eqn:Ec; [exact Hp|]. rewrite <- Ec in *.
  destruct (last_byte cur) as [b|]; [|apply Valid_app; assumption].
  destruct (b =? 47); [apply Valid_app; assumption|].
  apply Valid_app; [exact Hc|]. apply Valid_cons_ascii; [reflexivity | exact Hp].
Qed.
(* histories of pushes (extend / collect / join) keep the buffer valid *)
Theorem u_extend_valid ps : forall cur, Valid cur -> Forall Valid ps -> Valid (fold_left u_push ps cur).
Proof.
  induction ps as [|p ps IH]; intros cur Hc Hps; [exact Hc|]. inversion Hps; subst. cbn [fold_left].
  apply IH; [apply u_push_valid; assumption | assumption].
Qed.
(* the rule-table branches of WindowsEncoding::push that concatenate whole buffers *)
Theorem w_push_valid_concat cur p : Valid cur -> Valid p -> Valid (cur ++ 92 :: p) /\ Valid (cur ++ p).
Proof. intros Hc Hp. split; apply Valid_app; try assumption. apply Valid_cons_ascii; [reflexivity | exact Hp]. Qed.
