#!/usr/bin/env python3
"""Per-property check driver.  See DESIGN.md section 2.3 for the verdict logic.

   ./check Cxx quick|thorough            run the check, write evidence/Cxx.json
   ./check Cxx --replay FILE             re-run the case(s) stored in a replay file
   ./check setup                         build everything (MANIFEST.setup_cmd)
"""
import sys, os, json, time, subprocess, hashlib, re, fcntl, shutil, random, glob

ROOT = os.path.dirname(os.path.dirname(os.path.abspath(__file__)))
REPO = os.environ.get('VERIF_REPO', '/repo')
BUILD = os.path.join(ROOT, '_build')
COQ = os.path.join(ROOT, 'coq')
THEORIES = os.path.join(COQ, 'theories')
sys.path.insert(0, os.path.join(ROOT, 'tools'))

ENV = dict(os.environ, CARGO_NET_OFFLINE='true', CARGO_TARGET_DIR=os.path.join(BUILD, 'cargo'))
GUARD = 'chipsenkbeil_typed_path_verif'


def sh(cmd, cwd=None, timeout=3600, env=None, check=True, capture=True):
    r = subprocess.run(cmd, cwd=cwd, shell=isinstance(cmd, str), timeout=timeout, env=env or ENV,
                       stdout=subprocess.PIPE if capture else None, stderr=subprocess.STDOUT if capture else None,
                       text=True)
    if check and r.returncode != 0:
        raise BuildError(f"command failed ({r.returncode}): {cmd}\n{(r.stdout or '')[-4000:]}")
    return r


class BuildError(Exception):
    pass


class Lock:
    def __init__(self, name):
        os.makedirs(BUILD, exist_ok=True)
        self.path = os.path.join(BUILD, name + '.lock')

    def __enter__(self):
        self.f = open(self.path, 'w')
        fcntl.flock(self.f, fcntl.LOCK_EX)

    def __exit__(self, *a):
        fcntl.flock(self.f, fcntl.LOCK_UN)
        self.f.close()


def file_hash(paths):
    h = hashlib.sha256()
    for p in sorted(paths):
        h.update(p.encode())
        with open(p, 'rb') as f:
            h.update(f.read())
    return h.hexdigest()


# ------------------------------------------------------------------ Coq side

FORBIDDEN = [
    (r'^\s*(Axiom|Axioms|Parameter|Parameters|Conjecture|Conjectures)\b', 'axiom declaration'),
    (r'\bAdmitted\b', 'Admitted'), (r'\badmit\b', 'admit'), (r'Admit Obligations', 'Admit Obligations'),
    (r'Unset\s+Guard\s+Checking|Unset\s+Positivity\s+Checking|Unset\s+Universe\s+Checking', 'kernel check switched off'),
    (r'bypass_check', 'bypass_check'), (r'type-in-type|impredicative-set', 'kernel flag'),
]


def strip_comments(s):
    out, depth, i = [], 0, 0
    while i < len(s):
        if s.startswith('(*', i):
            depth += 1; i += 2
        elif s.startswith('*)', i) and depth > 0:
            depth -= 1; i += 2
        else:
            if depth == 0:
                out.append(s[i])
            elif s[i] == '\n':
                out.append('\n')
            i += 1
    return ''.join(out)


def scan_forbidden():
    """grep the whole development for anything that would declare an axiom or switch off a kernel check"""
    bad = []
    files = sorted(glob.glob(os.path.join(THEORIES, '**', '*.v'), recursive=True))
    for p in files:
        src = strip_comments(open(p).read())
        depth = 0
        for ln, line in enumerate(src.split('\n'), 1):
            for rx, what in FORBIDDEN:
                if re.search(rx, line):
                    bad.append(f'{os.path.relpath(p, ROOT)}:{ln}: {what}')
            if re.match(r'^\s*Section\b', line):
                depth += 1
            elif re.match(r'^\s*End\b', line) and depth > 0:
                depth -= 1
            elif depth == 0 and re.match(r'^\s*(Variable|Variables|Hypothesis|Hypotheses|Context)\b', line):
                bad.append(f'{os.path.relpath(p, ROOT)}:{ln}: Variable/Hypothesis outside a section')
    for p in [os.path.join(COQ, '_CoqProject')]:
        if os.path.exists(p) and re.search(r'type-in-type|impredicative-set|-vos|-vok', open(p).read()):
            bad.append('_CoqProject: forbidden flag')
    return bad, len(files)


def coq_makefile():
    mk = os.path.join(COQ, 'Makefile')
    cp = os.path.join(COQ, '_CoqProject')
    if not os.path.exists(mk) or os.path.getmtime(mk) < os.path.getmtime(cp):
        sh('coq_makefile -f _CoqProject -o Makefile', cwd=COQ)


def build_coq(targets=None, timeout=3000):
    """full .vo build (never -vos/-vok) of the requested targets (default: everything)"""
    with Lock('coq'):
        coq_makefile()
        cmd = ['make', '-j16'] + (targets or [])
        r = sh(cmd, cwd=COQ, timeout=timeout, check=False)
        return r.returncode == 0, r.stdout


def print_assumptions(prop_module, names, rundir):
    """fresh coqc run printing the assumptions of every property theorem"""
    v = os.path.join(rundir, 'Assumptions.v')
    with open(v, 'w') as f:
        f.write(f'From TP Require Import {prop_module}.\n')
        for n in names:
            f.write(f'Print Assumptions {n}.\n')
    r = sh(['coqc', '-noglob', '-Q', THEORIES, 'TP', v], cwd=rundir, timeout=600, check=False)
    res = {}
    if r.returncode != 0:
        return None, r.stdout
    chunks = re.split(r'(?m)^(?=Closed under the global context|Axioms:)', r.stdout)
    chunks = [c for c in chunks if c.strip()]
    for n, c in zip(names, chunks):
        if c.startswith('Closed under the global context'):
            res[n] = []
        else:
            res[n] = re.findall(r'(?m)^([A-Za-z_][\w\.\']*)\s*:', c)
    if len(chunks) != len(names):
        return None, r.stdout
    return res, r.stdout


AXIOM_ALLOWLIST = set()   # the development is meant to be closed under the global context


def theorem_names(prop_file):
    src = strip_comments(open(prop_file).read())
    return re.findall(r'(?m)^\s*Theorem\s+([A-Za-z_][\w\']*)', src)


# ------------------------------------------------------------------ extraction / driver / harness

def build_driver():
    with Lock('driver'):
        ex = os.path.join(BUILD, 'extract')
        os.makedirs(ex, exist_ok=True)
        srcs = [p for p in glob.glob(os.path.join(THEORIES, '**', '*.v'), recursive=True)
                if '/Props/' not in p and '/Proofs/' not in p] + [os.path.join(ROOT, 'driver', 'driver.ml')]
        h = file_hash(srcs)
        stamp = os.path.join(ex, 'stamp')
        if os.path.exists(stamp) and open(stamp).read() == h and os.path.exists(os.path.join(ex, 'driver')):
            return
        ok, out = build_coq(['theories/Run.vo'])
        if not ok:
            raise BuildError('model does not compile:\n' + out[-3000:])
        shutil.copy(os.path.join(ROOT, 'driver', 'driver.ml'), ex)
        shutil.copy(os.path.join(THEORIES, 'Extract.v'), ex)
        sh(['coqc', '-noglob', '-Q', THEORIES, 'TP', 'Extract.v'], cwd=ex, timeout=900)
        sh('ocamlfind ocamlopt -O3 -w -a model.mli model.ml driver.ml -o driver', cwd=ex, timeout=900)
        open(stamp, 'w').write(h)


def build_harness(features='std', profile='release'):
    """always rebuilt (cargo decides what is stale) against /repo's working tree, hooks enabled"""
    with Lock('cargo'):
        hd = os.path.join(ROOT, 'harness')
        env = dict(ENV, RUSTFLAGS=(ENV.get('RUSTFLAGS', '') + f' --cfg {GUARD}').strip())
        tgt = os.path.join(BUILD, 'cargo-' + (features or 'nostd'))
        env['CARGO_TARGET_DIR'] = tgt
        cmd = ['cargo', 'build', '--offline', '--quiet', '--no-default-features']
        if profile == 'release':
            cmd.append('--release')
        if features:
            cmd += ['--features', features]
        r = sh(cmd, cwd=hd, env=env, timeout=1800, check=False)
        if r.returncode != 0:
            raise BuildError('harness does not build against the working tree:\n' + r.stdout[-3000:])
        return os.path.join(tgt, profile if profile == 'release' else 'debug', 'tpharness')


def run_harness(binary, cases, out, timeout_ms=20000):
    with open(out, 'w') as f:
        r = subprocess.run([binary, cases, str(timeout_ms)], stdout=f, stderr=subprocess.PIPE, text=True, timeout=7200)
    return r.returncode


def run_driver(cases, impl, out):
    d = os.path.join(BUILD, 'extract', 'driver')
    with open(out, 'w') as f:
        r = subprocess.run(f'ulimit -s unlimited 2>/dev/null; exec {d} check {cases} {impl}', shell=True, stdout=f,
                           stderr=subprocess.PIPE, text=True, timeout=7200)
    if r.returncode != 0:
        raise BuildError('model driver failed: ' + r.stderr[-2000:])


# ------------------------------------------------------------------ known findings

def load_known():
    p = os.path.join(ROOT, 'known_findings.json')
    if not os.path.exists(p):
        return []
    return json.load(open(p)).get('findings', [])


# ------------------------------------------------------------------ main check

def shard(lines, n):
    k = max(1, (len(lines) + n - 1) // n)
    return [lines[i:i + k] for i in range(0, len(lines), k)]


def explore(prop, cases, rundir, tag, binary):
    """run cases through implementation and model; returns per-case records"""
    from concurrent.futures import ThreadPoolExecutor
    nsh = 16 if len(cases) > 20000 else 1
    shards = shard(cases, nsh)

    def work(i):
        cf = os.path.join(rundir, f'{tag}.{i}.cases')
        with open(cf, 'w') as f:
            f.write('\n'.join(shards[i]) + '\n')
        io = os.path.join(rundir, f'{tag}.{i}.impl')
        mo = os.path.join(rundir, f'{tag}.{i}.res')
        run_harness(binary, cf, io)
        run_driver(cf, io, mo)
        impl = open(io).read().split('\n')
        res = open(mo).read().split('\n')
        return impl, res

    with ThreadPoolExecutor(max_workers=16) as ex:
        parts = list(ex.map(work, range(len(shards))))
    recs = []
    for (impl, res), sh_ in zip(parts, shards):
        for j, case in enumerate(sh_):
            il = impl[j] if j < len(impl) else '(missing)'
            rl = res[j].split('\t') if j < len(res) and res[j] else ['0', '0', '0', '(missing)']
            recs.append((case, il, rl))
    for f in glob.glob(os.path.join(rundir, f'{tag}.*')):
        os.remove(f)
    return recs


def main():
    if len(sys.argv) >= 2 and sys.argv[1] == 'setup':
        return setup()
    if len(sys.argv) < 3:
        print(__doc__); return 2
    pid = sys.argv[1]
    import props
    prop = props.PROPS[pid]
    t0 = time.time()
    seed = int(os.environ.get('VERIF_SEED', '1'))
    if sys.argv[2] == '--replay':
        return replay(pid, prop, sys.argv[3])
    tier = os.environ.get('VERIF_TIER') or sys.argv[2]
    if tier not in ('quick', 'thorough'):
        tier = 'quick'
    rundir = os.path.join(BUILD, 'run', pid)
    shutil.rmtree(rundir, ignore_errors=True)
    os.makedirs(rundir, exist_ok=True)
    os.makedirs(os.path.join(ROOT, 'evidence'), exist_ok=True)
    os.makedirs(os.path.join(ROOT, 'replays'), exist_ok=True)
    evidence_path = os.path.join(ROOT, 'evidence', pid + '.json')
    broken = []          # obligations that no longer check: (kind, name, detail)
    notes = []
    obligations = 0
    discharged = 0

    # 1. proofs
    bad, nfiles = scan_forbidden()
    obligations += 1
    if bad:
        broken.append(('development', 'forbidden-construct', '; '.join(bad[:5])))
    else:
        discharged += 1
    prop_file = os.path.join(THEORIES, 'Props', pid + '.v')
    thms = theorem_names(prop_file) if os.path.exists(prop_file) else []
    assum = {}
    ok, out = build_coq([f'theories/Props/{pid}.vo']) if thms else (True, '')
    obligations += len(thms)
    if not ok:
        m = re.search(r'File "([^"]+)", line (\d+)[^\n]*\n(.*?)(?=\nmake|\Z)', out, re.S)
        detail = (m.group(0)[:600] if m else out[-600:])
        broken.append(('theorem', f'Props/{pid}.v', 'does not compile: ' + detail))
    elif thms:
        assum, raw = print_assumptions(f'Props.{pid}', thms, rundir)
        if assum is None:
            broken.append(('theorem', f'Props/{pid}.v', 'Print Assumptions failed: ' + raw[-400:]))
        else:
            for n in thms:
                extra = [a for a in assum[n] if a not in AXIOM_ALLOWLIST]
                if extra:
                    broken.append(('theorem', n, 'depends on axioms outside the allowlist: ' + ', '.join(extra)))
                else:
                    discharged += 1

    # 2. translator (tie B)
    tb = None
    import translate
    if pid in translate.ALL_PIDS:
        ok_m, out_m = build_coq(['theories/Spec.vo', 'theories/GenSpec.vo', 'theories/Win.vo', 'theories/Unix.vo'])
        tb = translate.run(pid, prop, REPO, rundir, THEORIES)
        tb.pop('generated', None)
        obligations += tb['obligations']
        discharged += tb['discharged']
        for b_ in tb['broken']:
            broken.append(('generated-table', b_[0], b_[1]))

    # 3. build
    tphase = time.time()
    try:
        build_driver()
        binary = build_harness('std')
    except BuildError as e:
        print(str(e)[-3000:])
        broken.append(('build', 'harness/driver', str(e)[-800:]))
        return finish(pid, prop, tier, seed, t0, evidence_path, obligations, discharged, broken, [], [], {}, notes, assum, tb)

    notes.append(f'phase build {time.time()-tphase:.1f}s (proofs+translator before: {tphase-t0:.1f}s)')
    tphase = time.time()
    # 4/5. run + compare
    rng = random.Random(seed)
    cases, dist = prop['gen'](tier, rng)
    corpus = props.corpus_cases(pid)
    cases = corpus + cases
    recs = explore(prop, cases, rundir, 'main', binary)
    notes.append(f'phase main run {time.time()-tphase:.1f}s')
    tphase = time.time()
    # the extracted model + driver.ml against evaluation inside Coq, on a sample of the cases just run
    try:
        import selfcheck
        n_sc, ok_sc, detail_sc = selfcheck.run_selfcheck(recs, rundir, os.path.join(COQ, 'theories'), os.path.join(BUILD, 'extract', 'driver'))
    except Exception as e:                                    # noqa: BLE001 - any failure here is a broken obligation, not a crash
        n_sc, ok_sc, detail_sc = 0, False, 'selfcheck crashed: ' + repr(e)[:300]
    obligations += 1
    if ok_sc:
        discharged += 1
    else:
        broken.append(('driver-vs-coq', 'extraction+driver', detail_sc))
    notes.append(f'driver vs Coq: {detail_sc} ({time.time()-tphase:.1f}s)')
    tphase = time.time()
    ops = sorted(set(c.split('\t', 1)[0] for c in cases))
    obligations += len(ops)           # one correspondence obligation per operation in scope
    omode = prop.get('oracle', 'driver')
    stats = analyse(recs, omode)
    stats['ops'] = ops
    stats['dist'] = dist
    stats['corpus_cases'] = len(corpus)
    bad_ops = sorted(set(r[0].split('\t', 1)[0] for r in stats['disagree']))
    discharged += len(ops) - len(bad_ops)
    for o in bad_ops:
        first = next(r for r in stats['disagree'] if r[0].startswith(o + '\t'))
        broken.append(('correspondence', o, f'model and implementation differ on {first[0]!r}: impl={first[1][:300]} model={first[2][3][:300] if len(first[2]) > 3 else "?"}'))
    # further builds of the harness (C20: --no-default-features), same cases, same model
    for feat in [f for f in prop.get('builds', []) if f != 'std']:
        try:
            bin2 = build_harness(feat)
        except BuildError as e:
            broken.append(('build', 'harness[' + (feat or 'no-default-features') + ']', str(e)[-800:]))
            continue
        recs2 = explore(prop, cases, rundir, 'b2', bin2)
        st2 = analyse(recs2, omode)
        obligations += len(ops) + 1
        bad2 = sorted(set(r[0].split('\t', 1)[0] for r in st2['disagree']))
        discharged += len(ops) - len(bad2)
        for o in bad2:
            first = next(r for r in st2['disagree'] if r[0].startswith(o + '\t'))
            broken.append(('correspondence', o + '[' + (feat or 'no-default-features') + ']',
                           f'model and the {feat or "no-default-features"} build differ on {first[0]!r}: impl={first[1][:300]}'))
        differ = [(a, b) for a, b in zip(recs, recs2) if a[1] != b[1]]
        if differ:
            a, b = differ[0]
            broken.append(('two-builds', 'default vs ' + (feat or 'no-default-features'),
                           f'{len(differ)} cases answer differently, first {a[0]!r}: {a[1][:200]} vs {b[1][:200]}'))
            stats['viol'] += [b for a, b in differ[:50]]
        else:
            discharged += 1
        stats['viol'] += st2['viol']
        stats['second_build_cases'] = len(recs2)
        stats['panics'] += st2['panics']
    # implementation-only stream (C18: very long inputs, release and debug builds): no panic, no timeout
    if prop.get('impl_only_gen'):
        lc = prop['impl_only_gen'](tier, random.Random(seed + 7))
        bins = [('release', binary)]
        if prop.get('debug_build'):
            try:
                bins.append(('debug', build_harness('std', profile='debug')))
            except BuildError as e:
                broken.append(('build', 'harness[debug]', str(e)[-800:]))
        for bname, bpath in bins:
            cf = os.path.join(rundir, f'long.{bname}.cases')
            open(cf, 'w').write('\n'.join(lc) + '\n')
            of = os.path.join(rundir, f'long.{bname}.impl')
            run_harness(bpath, cf, of, timeout_ms=60000)
            outs = open(of).read().split('\n')
            obligations += 1
            badl = [(c_, o_) for c_, o_ in zip(lc, outs) if o_.startswith('(panic)') or o_.startswith('(timeout)') or o_.startswith('(skipped)') or not o_]
            stats['impl_only_cases'] = stats.get('impl_only_cases', 0) + len(lc)
            if badl:
                c_, o_ = badl[0]
                stats['panics'] += len(badl)
                broken.append(('totality', f'long-inputs[{bname}]', f'{o_} on {c_[:120]!r}... ({len(c_)} chars)'))
                stats['viol'].append((c_, o_, ['0', '1', '0', '(implementation-only stream: must return normally)']))
            else:
                discharged += 1
            os.remove(cf); os.remove(of)
    notes.append(f'phase other builds / long inputs {time.time()-tphase:.1f}s')
    tphase = time.time()
    # the debug build also runs the main cases when the property is about overflow / panics
    if prop.get('debug_build') and len(cases) <= 400000:
        try:
            dbin = build_harness('std', profile='debug')
            recsd = explore(prop, cases, rundir, 'dbg', dbin)
            std_ = analyse(recsd, omode)
            obligations += 1
            if std_['disagree'] or std_['viol']:
                r = (std_['viol'] or std_['disagree'])[0]
                broken.append(('correspondence', 'debug-build', f'debug build differs from the model on {r[0][:200]!r}: {r[1][:200]}'))
                stats['viol'] += std_['viol']
            else:
                discharged += 1
            stats['debug_build_cases'] = len(recsd)
        except BuildError as e:
            broken.append(('build', 'harness[debug]', str(e)[-800:]))
    if stats['model_fail']:
        r = stats['model_fail'][0]
        broken.append(('oracle-on-model', pid, f'the model does not satisfy its own oracle on {r[0]!r} (theorem and glue disagree)'))

    # escalation: if something broke and no failing input is known yet, search deeper on the implementation
    if broken and not stats['viol'] and tier == 'quick' and prop.get('escalate', True):
        try:
            cases2, _ = prop['gen']('thorough', random.Random(seed + 1))
            seen = set(cases)
            cases2 = [c for c in cases2 if c not in seen]
            if 'gen_search' in prop:
                cases2 += prop['gen_search']([r[0] for r in stats['disagree'][:50]], rng)
            cases2 = cases2[:2000000]
            recs2 = explore(prop, cases2, rundir, 'esc', binary)
            st2 = analyse(recs2, omode)
            stats['viol'] += st2['viol']
            stats['escalated_cases'] = len(cases2)
            notes.append(f'escalated search over {len(cases2)} further cases')
        except Exception as e:   # the search is best effort
            notes.append(f'escalation failed: {e}')

    return finish(pid, prop, tier, seed, t0, evidence_path, obligations, discharged, broken, stats['viol'], recs, stats, notes, assum, tb)


def analyse(recs, mode='driver'):
    """mode: which oracle decides a violation on the implementation's output
         driver  - the extracted check_ function (0 fails, 1 holds, k>=2 known class)
         nopanic - the property is totality: only (panic)/(timeout) outputs violate it
         none    - the property is decided by comparing transcripts (two builds), not per case"""
    disagree, viol, model_fail = [], [], []
    panics = 0
    for r in recs:
        case, il, rl = r
        eq, cm, ci = rl[0], rl[1], rl[2]
        if mode != 'driver':
            cm = '1'
            ci = '0' if (mode == 'nopanic' and ('(panic)' in il or '(timeout)' in il or '(skipped)' in il)) else '1'
            r = (case, il, [eq, cm, ci] + list(rl[3:]))
        if eq != '1':
            disagree.append(r)
        if cm == '0' or not cm.isdigit():
            model_fail.append(r)
        if ci != '1':
            viol.append(r)            # '0' = the property fails; 'k' >= 2 = known-finding class k (sorted out in finish)
        if '(panic)' in il or '(timeout)' in il:
            panics += 1
    return {'n': len(recs), 'disagree': disagree, 'viol': viol, 'model_fail': model_fail, 'panics': panics}


def case_size(case):
    return len(case)


def known_match(pid, rec):
    """a listed finding suppresses exactly the cases of its class: the class predicate is part of the proved
       oracle (Oracles.v / Run.v), which answers k >= 2 for a case of known class k"""
    ci = rec[2][2] if len(rec[2]) > 2 else '0'
    if not ci.isdigit() or int(ci) < 2:
        return None
    for k in load_known():
        if k.get('status') == 'open' and pid in k.get('properties', [k.get('property')]) and k.get('class_id') == int(ci):
            return k
    return None


def finish(pid, prop, tier, seed, t0, evidence_path, obligations, discharged, broken, viol, recs, stats, notes, assum, tb):
    import props
    known_hits = {}
    new_viol = []
    for r in viol:
        k = known_match(pid, r)
        if k:
            known_hits.setdefault(k['id'], (k, r))
        else:
            new_viol.append(r)
    for kid, (k, r) in sorted(known_hits.items()):
        print(f"KNOWN-FINDING: property={pid} {kid} {k.get('what_fails','')}")
    status = 0
    replay_path = None
    if new_viol:
        r = min(new_viol, key=lambda r: case_size(r[0]))
        replay_path = os.path.join(ROOT, 'replays', f'{pid}-{hashlib.sha1(r[0].encode()).hexdigest()[:12]}.json')
        json.dump({'property': pid, 'kind': 'failing-input', 'case': r[0], 'implementation_output': r[1],
                   'model_output': (r[2][3] if len(r[2]) > 3 else 'same as implementation'),
                   'oracle_on_implementation': False,
                   'explain': props.explain(pid, r[0]),
                   'other_failing_cases': [x[0] for x in new_viol[1:20]],
                   'broken_obligations': [list(b) for b in broken]}, open(replay_path, 'w'), indent=1)
        print(f'VIOLATION property={pid} replay={replay_path}')
        status = 1
    elif broken:
        name = '-'.join(re.sub(r'\W+', '_', b[1]) for b in broken[:2])
        replay_path = os.path.join(ROOT, 'replays', f'{pid}-broken-{name[:60]}.json')
        json.dump({'property': pid, 'kind': 'broken-obligation',
                   'no_longer_checks': [{'kind': b[0], 'name': b[1], 'detail': b[2]} for b in broken],
                   'first_disagreeing_cases': [{'case': r[0], 'implementation_output': r[1][:2000],
                                                'model_output': (r[2][3][:2000] if len(r[2]) > 3 else None)}
                                               for r in (stats.get('disagree') or [])[:10]],
                   'search': notes}, open(replay_path, 'w'), indent=1)
        print(f'VIOLATION property={pid} replay={replay_path} no-failing-input-found')
        status = 1
    # evidence
    n = stats.get('n', 0)
    samples = []
    if recs:
        step = max(1, len(recs) // 6)
        for r in recs[::step][:6]:
            samples.append({'case': r[0][:400], 'implementation': r[1][:400]})
    nontrivial = props.count_nontrivial(pid, recs) if recs else 0
    ev = {
        'property_id': pid, 'tier': tier, 'seed': seed, 'level': prop.get('level', 'proof'),
        'coverage': {
            'obligations': obligations, 'discharged': discharged,
            'checker_cmd': f'./check {pid} {tier}  (make theories/Props/{pid}.vo; coqc Print Assumptions; translator obligations; cargo build harness against /repo; harness vs extracted model on generated cases)',
            'trusted_base': props.TRUSTED_BASE + prop.get('trusted_extra', []),
            'theorems': {k: ('closed under the global context' if not v else v) for k, v in (assum or {}).items()},
            'generated_tables': (tb or {}).get('summary'),
            'evaluations': n + stats.get('escalated_cases', 0),
            'distinct_nontrivial': nontrivial,
            'rule': prop.get('rule', ''),
            'samples': samples,
            'correspondence_ops': stats.get('ops', []),
            'model_impl_disagreements': len(stats.get('disagree', [])),
            'oracle_failures_on_implementation': len(new_viol),
            'known_finding_cases': {k: 1 for k in known_hits} and {kid: sum(1 for r in viol if (known_match(pid, r) or {}).get('id') == kid) for kid in known_hits},
            'panics_or_timeouts_observed': stats.get('panics', 0),
            'input_distribution': stats.get('dist', {}),
            'corpus_cases': stats.get('corpus_cases', 0),
            'exhaustive': False,
            'bounded_exhaustive_part': prop.get('exhaustive_note', ''),
            'broken_obligations': [list(b) for b in broken],
            'notes': notes,
            # translation validation: how many programs were run on the same cases (API families of the crate, each
            # compared with the model of its byte family; plus the second build when there is one) and how many
            # case-by-case comparisons were made
            'programs': len(set((c.split('\t')[0].split('.')[-1] if '.' in c.split('\t')[0] else c.split('\t')[0]) for c, _, _ in recs)) + (1 if stats.get('second_build_cases') else 0) if recs else 0,
            'disagreements_checked': n + stats.get('second_build_cases', 0),
            'explanation': prop.get('level_text', ''),
        },
        'assumptions': prop.get('assumptions', []) + props.COMMON_ASSUMPTIONS,
        'wall_s': round(time.time() - t0, 2),
        'violations': (1 if status else 0),
    }
    json.dump(ev, open(evidence_path, 'w'), indent=1)
    print(f'{pid} {tier}: obligations {discharged}/{obligations}, cases {n}, disagreements {len(stats.get("disagree", []))}, '
          f'oracle failures {len(viol)}, wall {ev["wall_s"]}s -> {"FAIL" if status else "ok"}')
    return status


def replay(pid, prop, path):
    data = json.load(open(path))
    rundir = os.path.join(BUILD, 'run', pid + '-replay')
    shutil.rmtree(rundir, ignore_errors=True)
    os.makedirs(rundir)
    build_driver()
    binary = build_harness('std')
    cases = []
    if 'case' in data:
        cases.append(data['case'])
    for d in data.get('first_disagreeing_cases', []):
        cases.append(d['case'])
    if not cases:
        print('replay file names no case; broken obligations:', json.dumps(data.get('no_longer_checks'), indent=1))
        return 1
    recs = explore(prop, cases, rundir, 'replay', binary)
    bad = 0
    for case, il, rl in recs:
        print('case   :', case)
        print('impl   :', il[:1500])
        print('model  :', rl[3][:1500] if len(rl) > 3 else '(same)')
        print('equal  :', rl[0], ' oracle(model):', rl[1], ' oracle(impl):', rl[2])
        if rl[2] != '1' or rl[0] != '1':
            bad = 1
    return bad


def setup():
    t0 = time.time()
    os.makedirs(BUILD, exist_ok=True)
    ok, out = build_coq(None)
    if not ok:
        print(out[-5000:])
        print('setup: Coq build failed')
        return 1
    build_driver()
    build_harness('std')
    build_harness('')
    print(f'setup ok in {time.time()-t0:.0f}s')
    return 0


if __name__ == '__main__':
    try:
        sys.exit(main())
    except BuildError as e:
        print(str(e)[-4000:])
        sys.exit(2)
