#!/usr/bin/env python3
"""Cross-check of the extracted model + hand-written driver against evaluation inside Coq.

The verdict of every check rests on three things the kernel never sees: Coq's extraction of Run.v to OCaml,
driver.ml (parsing of case lines and of the implementation's answers, printing of values) and the OCaml
compiler.  This module removes that from the trusted base for a sample of the very cases a check has just
run: it translates the case line, the model's printed answer, the implementation's printed answer and the
three result columns (eq, check-on-model, check-on-implementation) into Coq terms -- with its own small
parser, independent of driver.ml's -- and lets Coq itself evaluate

    val_eqb (run op args) model_answer  &&  (val_eqb model_answer impl_answer = eq)
    &&  check op args model_answer = cm  &&  check op args impl_answer = ci

with vm_compute over the compiled Run.vo.  `true` for every sampled case means: on these cases the OCaml
program computed what the Gallina definitions compute, and its reading of the implementation's text is the
reading this translator makes.  A `false` is reported as a broken obligation (driver-vs-coq) with the case."""
import os
import re
import subprocess


class ParseError(Exception):
    pass


def parse_val(s):
    """the value text format of the harness / driver -> nested python: ('B', [ints]) ('I', n) ('T',) ('F',) ('N',)
       ('L', [vals]) ('C', tag, [vals])"""
    pos = [0]
    n = len(s)

    def ws():
        while pos[0] < n and s[pos[0]] == ' ':
            pos[0] += 1

    def value():
        ws()
        if pos[0] >= n:
            raise ParseError('eof')
        c = s[pos[0]]
        if c == 'x':
            pos[0] += 1
            st = pos[0]
            while pos[0] < n and s[pos[0]] in '0123456789abcdef':
                pos[0] += 1
            h = s[st:pos[0]]
            if len(h) % 2:
                raise ParseError('odd hex')
            return ('B', [int(h[i:i + 2], 16) for i in range(0, len(h), 2)])
        if c == 'i':
            pos[0] += 1
            st = pos[0]
            while pos[0] < n and s[pos[0]].isdigit():
                pos[0] += 1
            return ('I', int(s[st:pos[0]]))
        if c == '[':
            pos[0] += 1
            items = []
            while True:
                ws()
                if pos[0] >= n:
                    raise ParseError('unclosed [')
                if s[pos[0]] == ']':
                    pos[0] += 1
                    return ('L', items)
                items.append(value())
        if c == '(':
            pos[0] += 1
            st = pos[0]
            while pos[0] < n and (s[pos[0]].isalnum() or s[pos[0]] in '_.:+-'):
                pos[0] += 1
            tag = s[st:pos[0]]
            items = []
            while True:
                ws()
                if pos[0] >= n:
                    raise ParseError('unclosed (')
                if s[pos[0]] == ')':
                    pos[0] += 1
                    return ('C', tag, items)
                items.append(value())
        if c in 'TFN':
            pos[0] += 1
            return (c,)
        raise ParseError(f'unexpected {c!r} at {pos[0]}')

    v = value()
    ws()
    if pos[0] != n:
        raise ParseError('trailing text')
    return v


def coq_val(v):
    k = v[0]
    if k == 'B':
        return '(VB [' + '; '.join(str(b) for b in v[1]) + '])'
    if k == 'I':
        return f'(VI {v[1]})'
    if k == 'T':
        return '(VBool true)'
    if k == 'F':
        return '(VBool false)'
    if k == 'N':
        return 'VN'
    if k == 'L':
        return '(VL [' + '; '.join(coq_val(x) for x in v[1]) + '])'
    if k == 'C':
        if '"' in v[1]:
            raise ParseError('quote in tag')
        return f'(VC "{v[1]}" [' + '; '.join(coq_val(x) for x in v[2]) + '])'
    raise ParseError('kind')


def size(v):
    if v[0] == 'B':
        return len(v[1]) + 1
    if v[0] == 'L':
        return 1 + sum(size(x) for x in v[1])
    if v[0] == 'C':
        return 1 + sum(size(x) for x in v[2])
    return 1


def pick(records, want=160, max_size=700):
    """an evenly spaced, deterministic sample of small cases; records = (case line, impl line, [eq, cm, ci, ...])"""
    step = max(1, len(records) // (want * 3))
    out = []
    ops = {}
    for i in range(0, len(records), step):
        case, impl, res = records[i]
        op = case.split('\t', 1)[0]
        if ops.get(op, 0) >= max(6, want // 8):
            continue
        if len(case) + len(impl) > max_size * 3 or len(res) < 3:
            continue
        ops[op] = ops.get(op, 0) + 1
        out.append(records[i])
        if len(out) >= want:
            break
    return out


def run_selfcheck(records, rundir, coq_theories, driver, timeout=600):
    """returns (n_checked, ok, detail)"""
    sample = pick(records)
    if not sample:
        return 0, True, 'no sample'
    cf = os.path.join(rundir, 'selfcheck.cases')
    with open(cf, 'w') as f:
        f.write('\n'.join(c for c, _, _ in sample) + '\n')
    r = subprocess.run(f'ulimit -s unlimited 2>/dev/null; exec {driver} run {cf}', shell=True, capture_output=True, text=True, timeout=timeout)
    if r.returncode != 0:
        return 0, False, 'driver run failed: ' + r.stderr[-400:]
    model = r.stdout.split('\n')
    rows = []
    kept = []
    for (case, impl, res), mo in zip(sample, model):
        try:
            parts = case.split('\t')
            op = parts[0]
            if '"' in op:
                continue
            args = [parse_val(a) for a in parts[1:]]
            mv = parse_val(mo)
            iv = parse_val(impl)
            if size(mv) + size(iv) + sum(size(a) for a in args) > 900:
                continue
            eq, cm, ci = int(res[0]), int(res[1]), int(res[2])
        except (ParseError, ValueError):
            continue          # unparsable implementation text is judged by the driver alone (it maps it to a failure)
        rows.append(f'  ("{op}", [{"; ".join(coq_val(a) for a in args)}], {coq_val(mv)}, {coq_val(iv)}, '
                    f'{"true" if eq else "false"}, {cm}%N, {ci}%N)')
        kept.append(case)
    if not rows:
        return 0, True, 'no translatable case in the sample'
    vf = os.path.join(rundir, 'Selfcheck.v')
    with open(vf, 'w') as f:
        f.write('From Coq Require Import List NArith Bool String.\nImport ListNotations.\nFrom TP Require Import Val Run.\n'
                'Open Scope string_scope.\nOpen Scope N_scope.\n'
                'Definition cases : list (string * list val * val * val * bool * N * N) := [\n' + ';\n'.join(rows) + '\n].\n'
                'Definition ok (c : string * list val * val * val * bool * N * N) : bool :=\n'
                "  let '(op, args, mo, io, eq, cm, ci) := c in\n"
                '  val_eqb (run op args) mo && Bool.eqb (val_eqb mo io) eq && N.eqb (check op args mo) cm && N.eqb (check op args io) ci.\n'
                'Definition bad : list nat := map fst (filter (fun p => negb (ok (snd p))) (combine (seq 0 (List.length cases)) cases)).\n'
                'Eval vm_compute in (List.length cases, bad).\n')
    r = subprocess.run(['coqc', '-q', '-noglob', '-Q', coq_theories, 'TP', vf], capture_output=True, text=True, timeout=timeout, cwd=rundir)
    out = re.sub(r'\s+', ' ', r.stdout + r.stderr)
    m = re.search(r'= \((\d+)%?n?a?t?, (\[[^\]]*\]|nil)\)', out)
    for ext in ('.vo', '.vok', '.vos', '.glob'):
        p = vf[:-2] + ext
        if os.path.exists(p):
            os.remove(p)
    if r.returncode != 0 or not m:
        return len(rows), False, 'coqc on Selfcheck.v failed: ' + out[-600:]
    n = int(m.group(1))
    badl = re.findall(r'\d+', m.group(2))
    if badl:
        i = int(badl[0])
        return n, False, f'the extracted driver and Coq disagree on {kept[i][:300]!r} ({len(badl)} of {n} sampled cases)'
    return n, True, f'{n} sampled cases re-evaluated inside Coq (run, val_eqb, check on both answers): all equal'


if __name__ == '__main__':
    import sys
    # standalone: selfcheck.py CASES IMPL_OUT RES_OUT RUNDIR
    cases = open(sys.argv[1]).read().split('\n')
    impl = open(sys.argv[2]).read().split('\n')
    res = [l.split('\t') for l in open(sys.argv[3]).read().split('\n')]
    recs = [(c, i, r) for c, i, r in zip(cases, impl, res) if c]
    root = os.path.dirname(os.path.dirname(os.path.abspath(__file__)))
    print(run_selfcheck(recs, sys.argv[4], os.path.join(root, 'coq', 'theories'), os.path.join(root, '_build', 'extract', 'driver')))
