"""Case generation helpers.  Every random choice comes from the rng passed in."""
import itertools


def hx(b):
    return 'x' + bytes(b).hex()


def strings_upto(alpha, k):
    for n in range(0, k + 1):
        for s in itertools.product(alpha, repeat=n):
            yield bytes(s)


def strings_exact(alpha, n):
    for s in itertools.product(alpha, repeat=n):
        yield bytes(s)


def scheds(n):
    for sc in itertools.product([0, 1], repeat=n):
        yield bytes(sc)


def usegs(s, seps=b'/'):
    out, cur = [], bytearray()
    for c in s:
        if c in seps:
            if cur:
                out.append(bytes(cur))
            cur = bytearray()
        else:
            cur.append(c)
    if cur:
        out.append(bytes(cur))
    return out


SEG_POOL_U = [b'a', b'b', b'.', b'..', b'', b'a.b', b'.a', b'a.', b'..a', b'a..b', b'\x00', b'\xff\xfe', b'foo.txt', b'...',
              b'x.tar.gz', b'\xc3\xa9', b'a b']


def random_unix_path(rng, maxseg=6):
    n = rng.randint(0, maxseg)
    segs = [rng.choice(SEG_POOL_U) for _ in range(n)]
    out = bytearray()
    if rng.random() < 0.45:
        out += b'/' * rng.choice([1, 1, 1, 2, 3])
    for i, s in enumerate(segs):
        out += s
        if i + 1 < n or rng.random() < 0.4:
            out += b'/' * rng.choice([1, 1, 1, 2, 3])
    return bytes(out)


def random_bytes(rng, maxlen=12):
    n = rng.randint(0, maxlen)
    return bytes(rng.choice([0x2f, 0x2e, 0x5c, 0x3a, 0x3f, 0x61, 0x43, 0x00, 0xff, 0x80, rng.randrange(256)]) for _ in range(n))


def hist(d, key):
    d[key] = d.get(key, 0) + 1


# ---------------------------------------------------------------- Windows / UTF-8 pools
WSEEDS = [b'', b'\\\\?\\UNC\\s\\sh', b'\\\\?\\UNC\\s', b'\\\\?\\UNC\\', b'\\\\?\\UNC', b'//?/UNC/s/sh', b'\\\\?\\', b'\\\\.\\',
          b'\\\\?\\C:', b'\\\\?\\c:', b'\\\\s\\sh', b'//s/sh', b'\\\\s', b'C:', b'c:', b'\\\\?\\pic', b'//./dev', b'\\\\?/C:',
          b'\\\\.\\COM1', b'\\/?\\x', b'/\\s/sh', b'\\\\?\\UNC/s', b'z:', b'\\\\?\\UNC\\s\\sh\\', b'\\\\?\\C:\\', b'C:\\', b'C:/', b'\\',
          b'/', b'\\\\?\\\\', b'//?/C:', b'\\\\.\\dev\\', b'\\\\s\\sh\\',
          # prefixes whose last byte is ':' without being a drive (a join must still add a separator after them)
          b'\\\\.\\C:', b'\\\\.\\COM1:', b'\\\\s\\C:', b'\\\\s\\sh:', b'\\\\?\\UNC\\s\\C:', b'\\\\?\\pic:', b'//./C:',
          # case variants of the one word the prefix grammar matches literally
          b'\\\\?\\unc\\s\\sh', b'\\\\?\\Unc\\s\\sh', b'\\\\?\\uNC\\s', b'\\\\?\\unc', b'\\\\?\\UNc\\s\\sh\\']
WALPHA4 = [0x5c, 0x2f, 0x2e, 0x61]
WALPHA7 = [0x5c, 0x2f, 0x2e, 0x3a, 0x3f, 0x61, 0x43]
UALPHA4 = [0x2f, 0x2e, 0x61, 0x62]
UALPHA6 = [0x2f, 0x2e, 0x61, 0x62, 0x00, 0xff]
U8TOK = [b'/', b'\\', b'.', b':', b'a', '\u00e9'.encode(), '\u20ac'.encode(), '\U0001F600'.encode()]


def wpaths_seeded(k):
    for sd in WSEEDS:
        for s in strings_upto(WALPHA4, k):
            yield sd + s


def utf8_strings_upto(k, toks=U8TOK):
    for n in range(0, k + 1):
        for s in itertools.product(toks, repeat=n):
            yield b''.join(s)


SEG_POOL_W = [b'a', b'b', b'.', b'..', b'', b'a.b', b'.a', b'a.', b'C:', b'a:b', b'x?', b'foo.txt', b'...', b'\xff', b'a|b', b'\x00',
              b'UNC', b'?', b'a*', b'"q"', b'<', b'>']


def random_win_path(rng, maxseg=5):
    out = bytearray(rng.choice(WSEEDS)) if rng.random() < 0.6 else bytearray()
    n = rng.randint(0, maxseg)
    for i in range(n):
        if i > 0 or rng.random() < 0.5:
            out += bytes(rng.choice([0x5c, 0x5c, 0x2f]) for _ in range(rng.choice([1, 1, 1, 2])))
        out += rng.choice(SEG_POOL_W)
    if rng.random() < 0.35:
        out += bytes(rng.choice([0x5c, 0x2f]) for _ in range(rng.choice([1, 2])))
    return bytes(out)


U8SEG = [b'a', '\u00e9'.encode(), '\u20ac.'.encode() + '\U0001F600'.encode(), b'.', b'..', b'x.' + '\u00e9\u00e9'.encode(),
         '.\u00e9'.encode(), '\u00e9.'.encode(), b'C:', '\u00e9:'.encode(), b'', 'n\u0303.t\u20act'.encode(), '\U0001F600'.encode()]


def random_utf8_path(rng, win, maxseg=5):
    seps = [b'\\', b'\\', b'/'] if win else [b'/']
    out = bytearray()
    if win and rng.random() < 0.5:
        out += rng.choice(WSEEDS)
    elif rng.random() < 0.4:
        out += rng.choice(seps)
    n = rng.randint(0, maxseg)
    for i in range(n):
        if i > 0:
            out += rng.choice(seps) * rng.choice([1, 1, 2])
        out += rng.choice(U8SEG)
    if rng.random() < 0.4:
        out += rng.choice(seps) + rng.choice([b'', b'.', b'./', b'/'])
    return bytes(out)


def base_pool(win, rich=False):
    """well-formed bases: each prefix kind or none, rooted or not, 0-2 components incl . and .., trailing separators"""
    out = []
    if win:
        prefixes = [b'', b'C:', b'c:', b'\\\\s\\sh', b'//s/sh', b'\\\\?\\C:', b'\\\\?\\UNC\\s\\sh', b'\\\\?\\pic', b'\\\\.\\dev',
                    # incomplete or colon-ended prefixes: a separator and a name after them may spell a longer prefix
                    b'\\\\s', b'\\\\?\\UNC\\s', b'\\\\?\\UNC', b'\\\\.\\C:', b'\\\\s\\C:', b'\\\\?\\pic:']
        roots = [b'', b'\\', b'/']
        seps = [b'\\', b'/']
    else:
        prefixes = [b'']
        roots = [b'', b'/']
        seps = [b'/']
    bodies = [[], [b'a'], [b'.'], [b'..'], [b'a', b'b'], [b'a', b'..'], [b'.', b'a'], [b'a', b'.']]
    if rich:
        bodies += [[b'a.b'], [b'a', b'b', b'c'], [b'..', b'..'], [b'a.b', b'c.d']]
    trail = [b''] + seps + ([b'\\/'] if win else [b'//'])
    for px in prefixes:
        for rt in roots:
            if px.startswith(b'\\\\?\\') and rt == b'/':
                continue
            for body in bodies:
                for sp in seps:
                    if px.startswith(b'\\\\?\\') and sp == b'/':
                        continue
                    for tr in trail:
                        if px.startswith(b'\\\\?\\') and b'/' in tr:
                            continue
                        if not body and tr and (rt or not px):
                            continue
                        s = px + rt + sp.join(body) + tr
                        out.append(s)
    seen, res = set(), []
    for s in out:
        if s not in seen:
            seen.add(s); res.append(s)
    return res

# ---------------------------------------------------------------- boundary values
# Inputs a sampler over short strings and moderate random paths does not reach: sizes and counts around powers
# of two, every byte value in every structural position, every drive letter, the reserved device names the
# crate itself lists, long separator runs, ".." and forbidden bytes at block boundaries.  Generic boundary-value
# heuristics, fixed (no randomness), the same for every property.
B_LENGTHS = [15, 16, 17, 31, 32, 33, 63, 64, 65, 127, 128, 129, 255, 256, 257]
B_COUNTS = [7, 8, 9, 10, 15, 16, 17, 18, 31, 32, 33, 34]
B_COUNTS_DEEP = [63, 64, 65, 127, 128, 129, 255, 256, 257]     # narrow counters: only a few shapes each
RESERVED = ['CON', 'PRN', 'AUX', 'NUL'] + ['COM%d' % i for i in range(10)] + ['LPT%d' % i for i in range(10)]


def _seps(win):
    return [b'\\', b'/'] if win else [b'/']


def boundary_names():
    """single names of boundary lengths, with and without extensions"""
    out = []
    for n in B_LENGTHS:
        out.append(b'n' * n)
        out.append(b'x' * (n - 4) + b'.txt')            # total length n, short extension
        out.append(b'a.' + b'e' * (n - 2))              # total length n, long extension
        out.append(b's' * (n // 2) + b'.' + b't' * (n - n // 2 - 1))
    return out


def boundary_paths(win):
    out = []
    sp = _seps(win)
    s0 = sp[0]
    heads = [b'', s0] + ([b'C:', b'C:\\', b'\\\\?\\C:\\', b'\\\\?\\UNC\\s\\sh\\', b'\\\\s\\sh\\', b'\\\\.\\dev\\', b'\\\\?\\pic\\'] if win else [])
    # 1. long names in several positions
    for nm in boundary_names():
        out += [nm, s0 + nm, nm + s0 + b'x', b'a' + s0 + nm + s0 + b'b', nm + s0, nm + s0 + b'.']
        if win:
            out += [b'C:' + nm, b'C:\\' + nm + b'\\t', b'\\\\?\\C:\\' + nm, b'\\\\' + nm + b'\\sh\\d', b'\\\\s\\' + nm + b'\\d', b'\\\\.\\' + nm]
    # 2. deep paths
    for k in B_COUNTS:
        comps = [b'd%d' % i for i in range(1, k + 1)]
        for hd in heads:
            for s in sp:
                if hd.startswith(b'\\\\?\\') and s == b'/':
                    continue
                body = s.join(comps)
                out += [hd + body, hd + body + s + b'..', hd + body + s + b'..' + s + b'x', hd + body + s, hd + s.join(comps[:-1] + [b'..', comps[-1]])]
    # 2b. very deep paths (counters stored in narrow integers, batched walks)
    for k in B_COUNTS_DEEP:
        comps = [b'd%d' % i for i in range(k)]
        out.append((s0 if k % 2 else b'') + s0.join(comps))
    # 3. separator runs
    for r in range(2, 10):
        for s in sp:
            out += [b'a' + s * r + b'b', s * r, b'a' + s * r, s * r + b'a', b'a' + s * r + b'.' + s * r + b'b']
    # 4. every byte value in every structural position
    for v in range(256):
        c = bytes([v])
        out += [c, b'a' + c, c + b'a', b'a' + s0 + c + b'b', b'ab' + c + b'cd' + s0 + b'x', c + s0 + b'x', b'x' + s0 + c,
                b'long-name-' + c + b'-tail.ext', b'dir' + s0 + b'name.' + c]
        if win:
            out += [c + b':', c + b':x', c + b':\\x', b'\\\\?\\' + c + b':\\x', b'\\\\?\\' + c + b':', b'\\\\' + c + b'\\sh\\x', b'\\\\.\\' + c, b'\\\\?\\' + c + b'\\x']
    # 5. every drive letter
    if win:
        for v in list(range(65, 91)) + list(range(97, 123)):
            c = bytes([v])
            out += [c + b':', c + b':rel', c + b':\\abs', c + b':/abs', b'\\\\?\\' + c + b':\\v', b'\\\\?\\' + c + b':', b'x\\' + c + b':', c + b':..\\x']
    # 6. the reserved device names, as names, stems, devices
    for nm in RESERVED:
        for form in (nm, nm.lower(), nm.capitalize()):
            f = form.encode()
            out += [f, f + b'.txt', b'dir' + s0 + f, b'dir' + s0 + f + b'.tar.gz', f + s0 + b'x', s0 + f]
            if win:
                out += [b'\\\\.\\' + f, b'\\\\.\\' + f + b'\\x', b'C:\\' + f, b'C:' + f + b'.log', b'\\\\?\\' + f, b'\\\\' + f + b'\\' + f]
    # 7. numeric-looking and odd names
    for nm in (b'0', b'1', b'007', b'123.456', b'-1', b'1e9', b'+', b'~', b'~1', b'a b', b' ', b' a', b'a ', b'a.', b'..a', b'...', b'a..b', b'.a.'):
        out += [nm, b'd' + s0 + nm, nm + s0 + b'f', s0 + nm]
    # 8. ".." and a forbidden byte at block boundaries: padding of "." segments / a run of name bytes before them
    for n in B_LENGTHS:
        pad = (b'.' + s0) * (n // 2)
        for off in (n - 1, n, n + 1):
            p = pad[:off]
            if p and p[-1:] != s0:
                p = p[:-1] + s0
            out += [p + b'..' + s0 + b'x', b'a' + s0 + p + b'..', p + b'..']
        for bad in ((b'|', b'?', b':', b'*', b'\x00') if win else (b'\x00',)):
            out += [b'r' * n + bad + b'xyz', b'd' + s0 + b'r' * (n - 1) + bad, b'r' * (n + 1) + bad + s0 + b'f']
    # 9. multi-byte characters around the same boundaries
    for n in (7, 8, 9, 15, 16, 17, 31, 32, 33, 63, 64, 65):
        for ch in ('\u00e9', '\u00af', '\u013c', '\u20ac', '\u4e2a', '\U0001F33A'):
            e = ch.encode()
            out += [e * n, b'a' * n + e, b'd' + s0 + e * n + b'.' + e, b'x' * (n - 1) + e + s0 + b'y', e + b'.' + e * n]
    seen, res = set(), []
    for s in out:
        if s not in seen and len(s) <= 1700:
            seen.add(s); res.append(s)
    return res


def boundary_pairs(win):
    """(a, b): boundary bases with a few arguments, and ordinary bases with boundary arguments"""
    sp = _seps(win)
    s0 = sp[0]
    bp = boundary_paths(win)
    small_b = [b'x', b'..' + s0 + b'x', b'..', b'a' + s0 + b'b', b'.', b'', b'x.y', b'n' * 40, s0 + b'r']
    small_a = [b'', b'base', s0 + b'srv' + s0 + b'jail', b'a' + s0 + b'b' + s0] + ([b'C:', b'C:\\d', b'\\\\?\\C:\\d', b'\\\\s\\sh', b'Z:', b'z:'] if win else [])
    out = []
    for a in bp:
        if len(a) <= 400:
            for b in small_b[:5]:
                out.append((a, b))
    for a in small_a:
        for b in bp:
            if len(b) <= 400:
                out.append((a, b))
    # a path against itself and against its own re-spellings / prefixes (equality, ordering, prefix relations)
    for a in bp:
        if 8 <= len(a) <= 400:
            out.append((a, a))
            out.append((a, a.replace(s0, s0 + b'.' + s0, 1)))
            out.append((a, a + s0))
            cut = a.rfind(s0)
            if cut > 0:
                out.append((a, a[:cut]))
                out.append((a, a[cut + 1:]))
                out.append((a, a[a.find(s0) + 1:]))
    # a fixed shuffle: the callers take every k-th pair, and the pairs above come in regular groups per path, so a
    # plain stride would always pick the same slot of each group (it did: the re-spelling slot was never taken)
    import random as _random
    _random.Random(20261002).shuffle(out)
    return out
