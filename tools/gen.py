"""Case generation helpers.  Every random choice comes from the rng passed in."""
import itertools


def hx(b):
    return 'x' + bytes(b).hex()


def strings_upto(alpha, k):
    for n in range(0, k + 1):
        for s in itertools.product(alpha, repeat=n):
            yield bytes(s)


def strings_exact(alpha, n):
    for s in itertools.product(alpha, repeat=n):
        yield bytes(s)


def scheds(n):
    for sc in itertools.product([0, 1], repeat=n):
        yield bytes(sc)


def usegs(s, seps=b'/'):
    out, cur = [], bytearray()
    for c in s:
        if c in seps:
            if cur:
                out.append(bytes(cur))
            cur = bytearray()
        else:
            cur.append(c)
    if cur:
        out.append(bytes(cur))
    return out


SEG_POOL_U = [b'a', b'b', b'.', b'..', b'', b'a.b', b'.a', b'a.', b'..a', b'a..b', b'\x00', b'\xff\xfe', b'foo.txt', b'...',
              b'x.tar.gz', b'\xc3\xa9', b'a b']


def random_unix_path(rng, maxseg=6):
    n = rng.randint(0, maxseg)
    segs = [rng.choice(SEG_POOL_U) for _ in range(n)]
    out = bytearray()
    if rng.random() < 0.45:
        out += b'/' * rng.choice([1, 1, 1, 2, 3])
    for i, s in enumerate(segs):
        out += s
        if i + 1 < n or rng.random() < 0.4:
            out += b'/' * rng.choice([1, 1, 1, 2, 3])
    return bytes(out)


def random_bytes(rng, maxlen=12):
    n = rng.randint(0, maxlen)
    return bytes(rng.choice([0x2f, 0x2e, 0x5c, 0x3a, 0x3f, 0x61, 0x43, 0x00, 0xff, 0x80, rng.randrange(256)]) for _ in range(n))


def hist(d, key):
    d[key] = d.get(key, 0) + 1
