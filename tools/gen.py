"""Case generation helpers.  Every random choice comes from the rng passed in."""
import itertools


def hx(b):
    return 'x' + bytes(b).hex()


def strings_upto(alpha, k):
    for n in range(0, k + 1):
        for s in itertools.product(alpha, repeat=n):
            yield bytes(s)


def strings_exact(alpha, n):
    for s in itertools.product(alpha, repeat=n):
        yield bytes(s)


def scheds(n):
    for sc in itertools.product([0, 1], repeat=n):
        yield bytes(sc)


def usegs(s, seps=b'/'):
    out, cur = [], bytearray()
    for c in s:
        if c in seps:
            if cur:
                out.append(bytes(cur))
            cur = bytearray()
        else:
            cur.append(c)
    if cur:
        out.append(bytes(cur))
    return out


SEG_POOL_U = [b'a', b'b', b'.', b'..', b'', b'a.b', b'.a', b'a.', b'..a', b'a..b', b'\x00', b'\xff\xfe', b'foo.txt', b'...',
              b'x.tar.gz', b'\xc3\xa9', b'a b']


def random_unix_path(rng, maxseg=6):
    n = rng.randint(0, maxseg)
    segs = [rng.choice(SEG_POOL_U) for _ in range(n)]
    out = bytearray()
    if rng.random() < 0.45:
        out += b'/' * rng.choice([1, 1, 1, 2, 3])
    for i, s in enumerate(segs):
        out += s
        if i + 1 < n or rng.random() < 0.4:
            out += b'/' * rng.choice([1, 1, 1, 2, 3])
    return bytes(out)


def random_bytes(rng, maxlen=12):
    n = rng.randint(0, maxlen)
    return bytes(rng.choice([0x2f, 0x2e, 0x5c, 0x3a, 0x3f, 0x61, 0x43, 0x00, 0xff, 0x80, rng.randrange(256)]) for _ in range(n))


def hist(d, key):
    d[key] = d.get(key, 0) + 1


# ---------------------------------------------------------------- Windows / UTF-8 pools
WSEEDS = [b'', b'\\\\?\\UNC\\s\\sh', b'\\\\?\\UNC\\s', b'\\\\?\\UNC\\', b'\\\\?\\UNC', b'//?/UNC/s/sh', b'\\\\?\\', b'\\\\.\\',
          b'\\\\?\\C:', b'\\\\?\\c:', b'\\\\s\\sh', b'//s/sh', b'\\\\s', b'C:', b'c:', b'\\\\?\\pic', b'//./dev', b'\\\\?/C:',
          b'\\\\.\\COM1', b'\\/?\\x', b'/\\s/sh', b'\\\\?\\UNC/s', b'z:', b'\\\\?\\UNC\\s\\sh\\', b'\\\\?\\C:\\', b'C:\\', b'C:/', b'\\',
          b'/', b'\\\\?\\\\', b'//?/C:', b'\\\\.\\dev\\', b'\\\\s\\sh\\',
          # prefixes whose last byte is ':' without being a drive (a join must still add a separator after them)
          b'\\\\.\\C:', b'\\\\.\\COM1:', b'\\\\s\\C:', b'\\\\s\\sh:', b'\\\\?\\UNC\\s\\C:', b'\\\\?\\pic:', b'//./C:']
WALPHA4 = [0x5c, 0x2f, 0x2e, 0x61]
WALPHA7 = [0x5c, 0x2f, 0x2e, 0x3a, 0x3f, 0x61, 0x43]
UALPHA4 = [0x2f, 0x2e, 0x61, 0x62]
UALPHA6 = [0x2f, 0x2e, 0x61, 0x62, 0x00, 0xff]
U8TOK = [b'/', b'\\', b'.', b':', b'a', '\u00e9'.encode(), '\u20ac'.encode(), '\U0001F600'.encode()]


def wpaths_seeded(k):
    for sd in WSEEDS:
        for s in strings_upto(WALPHA4, k):
            yield sd + s


def utf8_strings_upto(k, toks=U8TOK):
    for n in range(0, k + 1):
        for s in itertools.product(toks, repeat=n):
            yield b''.join(s)


SEG_POOL_W = [b'a', b'b', b'.', b'..', b'', b'a.b', b'.a', b'a.', b'C:', b'a:b', b'x?', b'foo.txt', b'...', b'\xff', b'a|b', b'\x00',
              b'UNC', b'?', b'a*', b'"q"', b'<', b'>']


def random_win_path(rng, maxseg=5):
    out = bytearray(rng.choice(WSEEDS)) if rng.random() < 0.6 else bytearray()
    n = rng.randint(0, maxseg)
    for i in range(n):
        if i > 0 or rng.random() < 0.5:
            out += bytes(rng.choice([0x5c, 0x5c, 0x2f]) for _ in range(rng.choice([1, 1, 1, 2])))
        out += rng.choice(SEG_POOL_W)
    if rng.random() < 0.35:
        out += bytes(rng.choice([0x5c, 0x2f]) for _ in range(rng.choice([1, 2])))
    return bytes(out)


U8SEG = [b'a', '\u00e9'.encode(), '\u20ac.'.encode() + '\U0001F600'.encode(), b'.', b'..', b'x.' + '\u00e9\u00e9'.encode(),
         '.\u00e9'.encode(), '\u00e9.'.encode(), b'C:', '\u00e9:'.encode(), b'', 'n\u0303.t\u20act'.encode(), '\U0001F600'.encode()]


def random_utf8_path(rng, win, maxseg=5):
    seps = [b'\\', b'\\', b'/'] if win else [b'/']
    out = bytearray()
    if win and rng.random() < 0.5:
        out += rng.choice(WSEEDS)
    elif rng.random() < 0.4:
        out += rng.choice(seps)
    n = rng.randint(0, maxseg)
    for i in range(n):
        if i > 0:
            out += rng.choice(seps) * rng.choice([1, 1, 2])
        out += rng.choice(U8SEG)
    if rng.random() < 0.4:
        out += rng.choice(seps) + rng.choice([b'', b'.', b'./', b'/'])
    return bytes(out)


def base_pool(win, rich=False):
    """well-formed bases: each prefix kind or none, rooted or not, 0-2 components incl . and .., trailing separators"""
    out = []
    if win:
        prefixes = [b'', b'C:', b'c:', b'\\\\s\\sh', b'//s/sh', b'\\\\?\\C:', b'\\\\?\\UNC\\s\\sh', b'\\\\?\\pic', b'\\\\.\\dev',
                    # incomplete or colon-ended prefixes: a separator and a name after them may spell a longer prefix
                    b'\\\\s', b'\\\\?\\UNC\\s', b'\\\\?\\UNC', b'\\\\.\\C:', b'\\\\s\\C:', b'\\\\?\\pic:']
        roots = [b'', b'\\', b'/']
        seps = [b'\\', b'/']
    else:
        prefixes = [b'']
        roots = [b'', b'/']
        seps = [b'/']
    bodies = [[], [b'a'], [b'.'], [b'..'], [b'a', b'b'], [b'a', b'..'], [b'.', b'a'], [b'a', b'.']]
    if rich:
        bodies += [[b'a.b'], [b'a', b'b', b'c'], [b'..', b'..'], [b'a.b', b'c.d']]
    trail = [b''] + seps + ([b'\\/'] if win else [b'//'])
    for px in prefixes:
        for rt in roots:
            if px.startswith(b'\\\\?\\') and rt == b'/':
                continue
            for body in bodies:
                for sp in seps:
                    if px.startswith(b'\\\\?\\') and sp == b'/':
                        continue
                    for tr in trail:
                        if px.startswith(b'\\\\?\\') and b'/' in tr:
                            continue
                        if not body and tr and (rt or not px):
                            continue
                        s = px + rt + sp.join(body) + tr
                        out.append(s)
    seen, res = set(), []
    for s in out:
        if s not in seen:
            seen.add(s); res.append(s)
    return res
