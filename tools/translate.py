#!/usr/bin/env python3
"""Tie B: regenerate the data tables of the model from /repo's source on every run and
   re-check the Coq obligations over them.

   Generated (into <rundir>/Generated.v, never committed):
     gen_unix_sep gen_win_sep gen_win_alt_sep gen_*_cur gen_*_parent      constants.rs
     gen_{unix,win}_forbidden_{bytes,chars}                              constants.rs
     gen_prefix_alternatives                                             fn prefix any_of! order
     gen_cfg_gates  : list (file, line, feature-std polarity, kind)      every cfg / cfg_attr / cfg!
     gen_typed_dispatch : list (file, method, arm, callee-variant ok)    src/typed/**, src/platform.rs
   A construct the extractor cannot classify becomes an explicit Unknown entry that the
   obligations reject, so silence is never success."""
import os, re, subprocess, glob


def strip_comments(src):
    out, i, n = [], 0, len(src)
    while i < n:
        if src.startswith('//', i):
            j = src.find('\n', i)
            j = n if j < 0 else j
            out.append(' ' * (j - i)); i = j
        elif src.startswith('/*', i):
            j = src.find('*/', i + 2)
            j = n if j < 0 else j + 2
            out.append(re.sub(r'[^\n]', ' ', src[i:j])); i = j
        elif src[i] == '"':
            j = i + 1
            while j < n and src[j] != '"':
                j += 2 if src[j] == '\\' else 1
            out.append(src[i:j + 1]); i = j + 1
        else:
            out.append(src[i]); i += 1
    return ''.join(out)


ESC = {'n': 10, 'r': 13, 't': 9, '0': 0, '\\': 92, "'": 39, '"': 34}


def parse_char_lit(tok):
    """'x' or b'x' with escapes -> code point, or None"""
    m = re.fullmatch(r"b?'((?:\\.|\\x[0-9a-fA-F]{2}|[^'\\]))'", tok)
    if not m:
        return None
    s = m.group(1)
    if s.startswith('\\x'):
        return int(s[2:], 16)
    if s.startswith('\\'):
        return ESC.get(s[1])
    return ord(s)


def parse_bytes_str(tok):
    """b"..." -> list of byte values"""
    m = re.fullmatch(r'b?"((?:\\.|[^"\\])*)"', tok, re.S)
    if not m:
        return None
    s, out, i = m.group(1), [], 0
    while i < len(s):
        if s[i] == '\\':
            if s[i + 1] == 'x':
                out.append(int(s[i + 2:i + 4], 16)); i += 4
            else:
                v = ESC.get(s[i + 1])
                if v is None:
                    return None
                out.append(v); i += 2
        else:
            out += list(s[i].encode()); i += 1
    return out


def const_def(src, name):
    m = re.search(r'pub\s+const\s+' + name + r'\s*:\s*([^=]+?)=\s*(.*?);', src, re.S)
    return (m.group(1).strip(), m.group(2).strip()) if m else None


def table_values(defn):
    """a [..] / &[..] of char or byte literals, or a byte-string literal -> list of ints, or None"""
    if defn is None:
        return None
    ty, val = defn
    val = val.strip()
    if val.startswith('&'):
        val = val[1:].strip()
    if val.startswith('b"') or val.startswith('"'):
        return parse_bytes_str(val)
    if val.startswith('['):
        inner = val[1:val.rindex(']')]
        toks = re.findall(r"b?'(?:\\.|\\x[0-9a-fA-F]{2}|[^'\\])'", inner)
        rest = re.sub(r"b?'(?:\\.|\\x[0-9a-fA-F]{2}|[^'\\])'", '', inner)
        if re.sub(r'[\s,]', '', rest):
            return None          # something that is not a literal
        vals = [parse_char_lit(t) for t in toks]
        return None if any(v is None for v in vals) else vals
    return None


def scalar_value(defn):
    if defn is None:
        return None
    ty, val = defn
    v = parse_char_lit(val)
    if v is not None:
        return [v]
    return parse_bytes_str(val)


def coq_list(vals):
    return '[' + '; '.join(str(v) for v in vals) + ']'


def coq_opt_list(vals):
    return 'None' if vals is None else 'Some ' + coq_list(vals)


def coq_str(s):
    return '"' + s.replace('"', '""') + '"'


# ---------------------------------------------------------------- cfg gates

def cfg_occurrences(repo):
    occ = []
    for path in sorted(glob.glob(os.path.join(repo, 'src', '**', '*.rs'), recursive=True) + [os.path.join(repo, 'src', 'lib.rs')]):
        pass
    seen = set()
    for path in sorted(set(glob.glob(os.path.join(repo, 'src', '**', '*.rs'), recursive=True))):
        src = strip_comments(open(path).read())
        for m in re.finditer(r'(#!?\[\s*cfg(?:_attr)?\s*\(|cfg!\s*\()', src):
            start = m.end() - 1
            depth, j = 0, start
            while j < len(src):
                if src[j] == '(':
                    depth += 1
                elif src[j] == ')':
                    depth -= 1
                    if depth == 0:
                        break
                j += 1
            expr = re.sub(r'\s+', ' ', src[start + 1:j]).strip()
            line = src.count('\n', 0, m.start()) + 1
            kind = 'cfg_attr' if 'cfg_attr' in m.group(1) else ('cfg!' if m.group(1).startswith('cfg!') else 'cfg')
            occ.append((os.path.relpath(path, repo), line, kind, expr))
    return occ


def std_polarity(expr):
    """polarity of `feature = "std"` inside a cfg predicate: 'none' | 'pos' | 'neg' | 'unknown'"""
    pred = expr
    if 'feature' not in pred:
        return 'none'
    # tokenise
    toks = re.findall(r'[A-Za-z_][A-Za-z_0-9]*|"[^"]*"|[(),=]', pred)
    pos = [0]
    result = []

    def parse(neg):
        # predicate := ident '(' list ')' | ident '=' string | ident
        if pos[0] >= len(toks):
            return
        t = toks[pos[0]]; pos[0] += 1
        if pos[0] < len(toks) and toks[pos[0]] == '(':
            pos[0] += 1
            inner_neg = (not neg) if t == 'not' else neg
            if t not in ('not', 'all', 'any'):
                result.append('unknown')
            while pos[0] < len(toks) and toks[pos[0]] != ')':
                parse(inner_neg)
                if pos[0] < len(toks) and toks[pos[0]] == ',':
                    pos[0] += 1
            pos[0] += 1
        elif pos[0] < len(toks) and toks[pos[0]] == '=':
            val = toks[pos[0] + 1]; pos[0] += 2
            if t == 'feature':
                if val == '"std"':
                    result.append('neg' if neg else 'pos')
                else:
                    result.append('unknown')      # a feature other than std
        else:
            pass
    # cfg_attr(pred, attrs...) : only the first argument is a predicate
    parse(False)
    if 'unknown' in result:
        return 'unknown'
    if 'neg' in result and 'pos' in result:
        return 'unknown'
    return result[0] if result else 'none'


# ---------------------------------------------------------------- typed dispatch

def typed_dispatch(repo):
    """every `match self { Self::Unix(..) => .., Self::Windows(..) => .. }` and impl_typed_fn! use in src/typed/**:
       (file, fn, form, ok) where ok says each arm calls the same-named method on the wrapped value and re-wraps in its own
       variant (or in the documented target variant for the explicit conversions)"""
    rows = []
    files = sorted(glob.glob(os.path.join(repo, 'src', 'typed', '**', '*.rs'), recursive=True))
    for path in files:
        src = strip_comments(open(path).read())
        rel = os.path.relpath(path, repo)
        # split into fn bodies
        for m in re.finditer(r'\bfn\s+([a-z_0-9]+)\s*(?:<[^>]*>)?\s*\(', src):
            name = m.group(1)
            i = src.find('{', m.end())
            semi = src.find(';', m.end())
            if i < 0 or (0 <= semi < i):
                continue
            depth, j = 0, i
            while j < len(src):
                if src[j] == '{':
                    depth += 1
                elif src[j] == '}':
                    depth -= 1
                    if depth == 0:
                        break
                j += 1
            body = src[i:j + 1]
            if 'impl_typed_fn!' in body:
                mm = re.search(r'impl_typed_fn!\s*\(\s*self\s*,\s*([a-z_0-9]+)', body)
                alias = {('as_bytes', 'as_ref'), ('as_str', 'as_ref')}
                good = mm and (mm.group(1) == name or (name, mm.group(1)) in alias)
                rows.append((rel, name, 'impl_typed_fn', 'ok' if good else 'mismatch:' + (mm.group(1) if mm else '?')))
                continue
            if re.search(r'match\s+self\s*\{', body) and 'Self::Unix' in body and 'Self::Windows' in body:
                arms = re.findall(r'Self::(Unix|Windows)\s*\(([^)]*)\)\s*=>\s*(.*?)(?=,\s*Self::|\s*\}\s*$|,\s*\}\s*)', body, re.S)
                status = 'ok'
                for var, binder, rhs in arms:
                    rhs1 = re.sub(r'\s+', ' ', rhs)
                    other = 'Windows' if var == 'Unix' else 'Unix'
                    # re-wrapping into the other variant is only legitimate in the explicit conversions
                    wraps_other = re.search(r'\b(?:Typed\w*|Utf8Typed\w*|Self)::' + other + r'\b', rhs1)
                    explicit = name in ('with_unix_encoding', 'with_windows_encoding', 'with_unix_encoding_checked',
                                        'with_windows_encoding_checked')
                    if wraps_other and not explicit:
                        status = 'wrong-variant:' + var
                    if explicit:
                        target = 'Unix' if 'unix' in name else 'Windows'
                        wraps = re.findall(r'\b(?:Typed\w*|Utf8Typed\w*|Self)::(Unix|Windows)\b', rhs1)
                        if not wraps or any(w != target for w in wraps):
                            status = 'wrong-target:' + var
                        # the checked form must call a checked conversion, the unchecked form an unchecked one
                        calls = re.findall(r'\.\s*(with_[a-z_]*encoding[a-z_]*)\s*(?:::<[^>]*>)?\s*\(', rhs1)
                        for cl in calls:
                            if cl.endswith('_checked') != name.endswith('_checked'):
                                status = 'wrong-call:' + var
                rows.append((rel, name, 'match', status))
    return rows


def platform_forward(repo):
    rows = []
    path = os.path.join(repo, 'src', 'platform.rs')
    src = strip_comments(open(path).read())
    for m in re.finditer(r'fn\s+(label|components|hash|push|push_checked)\s*(?:<[^>]*>)?\s*\([^)]*\)[^{]*\{(.*?)\n\s{8}\}', src, re.S):
        name, body = m.group(1), m.group(2)
        callee = re.search(r'(?:NativeEncoding|Utf8NativeEncoding)\s*(?:as\s+\w+(?:<[^>]*>)?\s*>)?\s*::\s*([a-z_]+)', body)
        rows.append(('src/platform.rs', name, 'forward', 'ok' if callee and callee.group(1) == name else 'mismatch'))
    return rows


# ---------------------------------------------------------------- main

def generate(repo):
    uc = strip_comments(open(os.path.join(repo, 'src', 'unix', 'constants.rs')).read())
    wc = strip_comments(open(os.path.join(repo, 'src', 'windows', 'constants.rs')).read())
    g = {}
    g['gen_unix_sep'] = scalar_value(const_def(uc, 'SEPARATOR'))
    g['gen_unix_cur'] = scalar_value(const_def(uc, 'CURRENT_DIR'))
    g['gen_unix_parent'] = scalar_value(const_def(uc, 'PARENT_DIR'))
    g['gen_unix_forbidden_bytes'] = table_values(const_def(uc, 'DISALLOWED_FILENAME_BYTES'))
    g['gen_unix_forbidden_chars'] = table_values(const_def(uc, 'DISALLOWED_FILENAME_CHARS'))
    g['gen_win_sep'] = scalar_value(const_def(wc, 'SEPARATOR'))
    g['gen_win_alt_sep'] = scalar_value(const_def(wc, 'ALT_SEPARATOR'))
    g['gen_win_cur'] = scalar_value(const_def(wc, 'CURRENT_DIR'))
    g['gen_win_parent'] = scalar_value(const_def(wc, 'PARENT_DIR'))
    g['gen_win_forbidden_bytes'] = table_values(const_def(wc, 'DISALLOWED_FILENAME_BYTES'))
    g['gen_win_forbidden_chars'] = table_values(const_def(wc, 'DISALLOWED_FILENAME_CHARS'))
    ps = strip_comments(open(os.path.join(repo, 'src', 'windows', 'non_utf8', 'components', 'parser.rs')).read())
    m = re.search(r'fn\s+prefix\s*<[^>]*>\s*\([^)]*\)[^{]*\{\s*any_of!\s*\(\s*\'[a-z_]+\s*,(.*?)\)\s*\(input\)', ps, re.S)
    alts = [a.strip() for a in m.group(1).split(',') if a.strip()] if m else None
    g['_alts'] = alts
    # where the table is consulted: is_valid and push_checked of each encoding must use the BYTES table
    uses = {}
    for enc in ('unix', 'windows'):
        for rel in (f'src/{enc}/non_utf8/components/component.rs', f'src/{enc}/non_utf8.rs'):
            src = strip_comments(open(os.path.join(repo, rel)).read())
            uses[rel] = len(re.findall(r'DISALLOWED_FILENAME_BYTES\s*\.\s*contains\s*\(', src)) + \
                        len(re.findall(r'DISALLOWED_FILENAME_BYTES\s*\[', src)) * 100
    g['_uses'] = uses
    g['_cfg'] = [(f, l, k, e, std_polarity(e)) for (f, l, k, e) in cfg_occurrences(repo)]
    g['_dispatch'] = typed_dispatch(repo) + platform_forward(repo)
    return g


def write_generated(g, path):
    with open(path, 'w') as f:
        f.write('(* GENERATED from /repo on every run by tools/translate.py -- do not edit, not committed *)\n')
        f.write('From Coq Require Import List NArith String.\nImport ListNotations.\nOpen Scope string_scope.\nOpen Scope N_scope.\n')
        for k in sorted(x for x in g if not x.startswith('_')):
            f.write(f'Definition {k} : option (list N) := {coq_opt_list(g[k])}.\n')
        alts = g['_alts']
        f.write('Definition gen_prefix_alternatives : option (list string) := %s.\n' %
                ('None' if alts is None else 'Some [' + '; '.join(coq_str(a) for a in alts) + ']'))
        f.write('From TP Require Import GenSpec.\n')
        pm = {'none': 'PNone', 'pos': 'PPos', 'neg': 'PNeg', 'unknown': 'PUnknown'}
        f.write('Definition gen_cfg_gates : list (string * N * string * string * pol) := [\n')
        f.write(';\n'.join('  (%s, %d, %s, %s, %s)' % (coq_str(a), b, coq_str(c), coq_str(d), pm[e]) for a, b, c, d, e in g['_cfg']))
        f.write('\n].\n')
        f.write('Definition gen_typed_dispatch : list (string * string * string * string) := [\n')
        f.write(';\n'.join('  (%s, %s, %s, %s)' % tuple(coq_str(x) for x in r) for r in g['_dispatch']))
        f.write('\n].\n')
        f.write('Definition gen_table_uses : list (string * N) := [%s].\n' %
                '; '.join('(%s, %d)' % (coq_str(k), v) for k, v in sorted(g['_uses'].items())))


OBLIGATIONS = {
    # name -> (properties it serves, Coq statement closed by vm_compute)
    'unix_forbidden_bytes_documented': (['C17', 'C04', 'C16'], 'set_eq_opt gen_unix_forbidden_bytes forbidden_unix = true'),
    'unix_forbidden_bytes_model': (['C17', 'C04', 'C16'], 'set_eq_opt gen_unix_forbidden_bytes u_forbidden = true'),
    'unix_forbidden_chars_same': (['C17', 'C14'], 'set_eq_opt gen_unix_forbidden_chars forbidden_unix = true'),
    'win_forbidden_bytes_documented': (['C17', 'C04', 'C16'], 'set_eq_opt gen_win_forbidden_bytes forbidden_windows = true'),
    'win_forbidden_bytes_model': (['C17', 'C04', 'C16'], 'set_eq_opt gen_win_forbidden_bytes w_forbidden = true'),
    'win_forbidden_chars_same': (['C17', 'C14'], 'set_eq_opt gen_win_forbidden_chars forbidden_windows = true'),
    'forbidden_tables_duplicate_free': (['C17'], 'nodup_opt gen_unix_forbidden_bytes && nodup_opt gen_win_forbidden_bytes && nodup_opt gen_unix_forbidden_chars && nodup_opt gen_win_forbidden_chars = true'),
    'forbidden_table_consulted_whole': (['C17'], 'forallb (fun x => N.eqb (snd x) 1) gen_table_uses = true'),
    'separators': (['C17', 'C02', 'C01', 'C03'], '(gen_unix_sep, gen_win_sep, gen_win_alt_sep) = (Some [47], Some [92], Some [47])'),
    'dot_constants': (['C02', 'C01', 'C03'], '(gen_unix_cur, gen_unix_parent, gen_win_cur, gen_win_parent) = (Some [46], Some [46; 46], Some [46], Some [46; 46])'),
    'prefix_alternative_order': (['C02'], 'gen_prefix_alternatives = Some ["prefix_verbatim_unc"; "prefix_verbatim_disk"; "prefix_verbatim"; "prefix_device_ns"; "prefix_unc"; "prefix_disk"]'),
    'prefix_alternatives_model': (['C02'], 'List.length prefix_alternatives = 6%nat'),
    'cfg_std_gates_positive': (['C20'], 'forallb gate_ok gen_cfg_gates = true'),
    'cfg_gates_nonempty': (['C20'], 'Nat.leb 20 (List.length gen_cfg_gates) = true'),
    'typed_dispatch_transparent': (['C15'], 'forallb (fun r => String.eqb (snd r) "ok") gen_typed_dispatch = true'),
    'typed_dispatch_nonempty': (['C15'], 'Nat.leb 100 (List.length gen_typed_dispatch) = true'),
}

ALL_PIDS = sorted(set(p for v in OBLIGATIONS.values() for p in v[0]))

PRELUDE = '''From Coq Require Import List NArith Bool String.
Import ListNotations.
From TP Require Import Core Path Unix Win Spec GenSpec.
From Gen Require Import Generated.
Open Scope string_scope.
Open Scope N_scope.
Definition subset (a b : list N) : bool := forallb (fun x => mem_b x b) a.
Definition set_eq_opt (a : option (list N)) (b : list N) : bool :=
  match a with Some l => subset l b && subset b l | None => false end.
Fixpoint nodup_b (l : list N) : bool := match l with [] => true | x :: r => negb (mem_b x r) && nodup_b r end.
Definition nodup_opt (a : option (list N)) : bool := match a with Some l => nodup_b l | None => false end.
'''


def run(pid, prop, repo, rundir, theories):
    g = generate(repo)
    gdir = os.path.join(rundir, 'gen')
    os.makedirs(gdir, exist_ok=True)
    write_generated(g, os.path.join(gdir, 'Generated.v'))
    r = subprocess.run(['coqc', '-noglob', '-Q', theories, 'TP', '-Q', gdir, 'Gen', 'Generated.v'], cwd=gdir,
                       stdout=subprocess.PIPE, stderr=subprocess.STDOUT, text=True, timeout=600)
    res = {'obligations': 0, 'discharged': 0, 'broken': [], 'summary': {}}
    mine = {k: v for k, v in OBLIGATIONS.items() if pid in v[0]}
    res['obligations'] = len(mine)
    if r.returncode != 0:
        for k in mine:
            res['broken'].append((k, 'Generated.v does not compile: ' + r.stdout[-300:]))
        return res
    for name, (props_, stmt) in sorted(mine.items()):
        v = os.path.join(gdir, f'Obl_{name}.v')
        with open(v, 'w') as f:
            f.write(PRELUDE)
            f.write(f'Theorem {name} : {stmt}.\nProof. vm_compute. reflexivity. Qed.\nPrint Assumptions {name}.\n')
        r = subprocess.run(['coqc', '-noglob', '-Q', theories, 'TP', '-Q', gdir, 'Gen', os.path.basename(v)], cwd=gdir,
                           stdout=subprocess.PIPE, stderr=subprocess.STDOUT, text=True, timeout=600)
        if r.returncode == 0 and 'Closed under the global context' in r.stdout:
            res['discharged'] += 1
        else:
            res['broken'].append((name, f'obligation over the regenerated tables no longer checks: {stmt} -- ' + describe(name, g)))
    res['summary'] = {'unix_forbidden_bytes': g['gen_unix_forbidden_bytes'], 'win_forbidden_bytes': g['gen_win_forbidden_bytes'],
                      'prefix_alternatives': g['_alts'], 'cfg_gates': len(g['_cfg']),
                      'cfg_gates_mentioning_std': sum(1 for x in g['_cfg'] if x[4] != 'none'),
                      'typed_dispatch_entries': len(g['_dispatch']),
                      'typed_dispatch_not_ok': [r for r in g['_dispatch'] if r[3] != 'ok'][:10],
                      'obligations': sorted(mine)}
    res['generated'] = g
    return res


def describe(name, g):
    if 'forbidden' in name:
        return 'tables now: unix=%s win=%s uses=%s' % (g['gen_unix_forbidden_bytes'], g['gen_win_forbidden_bytes'], g['_uses'])
    if 'prefix' in name:
        return 'alternatives now: %s' % g['_alts']
    if 'cfg' in name:
        return 'offending gates: %s' % [x for x in g['_cfg'] if x[4] in ('neg', 'unknown')][:5]
    if 'dispatch' in name:
        return 'offending entries: %s' % [r for r in g['_dispatch'] if r[3] != 'ok'][:5]
    return ''


if __name__ == '__main__':
    import sys, json, tempfile
    g = generate(sys.argv[1] if len(sys.argv) > 1 else '/repo')
    print(json.dumps({k: v for k, v in g.items() if k not in ('_cfg', '_dispatch')}, indent=1))
    print('cfg gates:', len(g['_cfg']), [x for x in g['_cfg'] if x[4] != 'none' and x[4] != 'pos'])
    print('dispatch:', len(g['_dispatch']), [r for r in g['_dispatch'] if r[3] != 'ok'])
