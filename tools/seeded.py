#!/usr/bin/env python3
"""Run the checks against the seeded mutations kept under /verif/seeded/<id>/.
   usage: tools/seeded.py [id ...]   (default: all)   [--props C01,C02]  [--tier quick]
   Applies each patch to /repo (git apply), runs the check(s), and undoes it straight afterwards."""
import sys, os, json, subprocess, time
ROOT = os.path.dirname(os.path.dirname(os.path.abspath(__file__)))
REPO = '/repo'
def sh(cmd, **kw):
    return subprocess.run(cmd, shell=True, stdout=subprocess.PIPE, stderr=subprocess.STDOUT, text=True, **kw)
def main():
    args = [a for a in sys.argv[1:] if not a.startswith('--')]
    opts = dict(a[2:].split('=', 1) for a in sys.argv[1:] if a.startswith('--') and '=' in a)
    ids = args or sorted(os.listdir(os.path.join(ROOT, 'seeded')))
    assert sh('git -C /repo status --porcelain --untracked-files=no').stdout.strip() == '', '/repo has local edits'
    rows = []
    for mid in ids:
        d = os.path.join(ROOT, 'seeded', mid)
        if not os.path.exists(os.path.join(d, 'patch.diff')):
            continue
        meta = json.load(open(os.path.join(d, 'meta.json')))
        props = opts.get('props', meta.get('breaks_property', mid.split('-')[0])).split(',')
        r = sh(f'git -C {REPO} apply {d}/patch.diff')
        if r.returncode != 0:
            rows.append((mid, 'patch does not apply', '')); continue
        det = {}
        saved = {}
        for p in props:      # the evidence files must keep describing the unchanged tree
            ep = os.path.join(ROOT, 'evidence', p + '.json')
            saved[ep] = open(ep).read() if os.path.exists(ep) else None
        try:
            for p in props:
                t0 = time.time()
                r = sh(f'./check {p} {opts.get("tier", "quick")}', cwd=ROOT, timeout=3600)
                vio = [l for l in r.stdout.split('\n') if l.startswith('VIOLATION')]
                replay = None
                if vio:
                    rp = vio[0].split('replay=')[1].split()[0]
                    try:
                        replay = json.load(open(rp))
                    except Exception:
                        replay = None
                det[p] = {'exit': r.returncode, 'violation_line': vio[0] if vio else None, 'wall_s': round(time.time() - t0, 1),
                          'replay_kind': (replay or {}).get('kind'), 'replay_case': (replay or {}).get('explain') or ((replay or {}).get('no_longer_checks') or [None])[0]}
        finally:
            sh(f'git -C {REPO} checkout -- .')
            for ep, txt in saved.items():
                if txt is not None:
                    open(ep, 'w').write(txt)
        json.dump(det, open(os.path.join(d, 'detection.json'), 'w'), indent=1)
        for p, v in det.items():
            rows.append((mid, p, 'DETECTED' if v['exit'] == 1 and v['violation_line'] else f'missed (exit {v["exit"]})', v['replay_kind'], v['wall_s']))
            print(rows[-1], flush=True)
    assert sh('git -C /repo status --porcelain --untracked-files=no').stdout.strip() == ''
if __name__ == '__main__':
    main()
