"""Per-property configuration: case generators, non-triviality rule, explanations."""
import os, json, re
from gen import *

ROOT = os.path.dirname(os.path.dirname(os.path.abspath(__file__)))

TRUSTED_BASE = [
    'Coq 8.16.1 kernel (coqc, full .vo build; vm_compute used, native_compute not used)',
    'axioms: none (every property theorem prints "Closed under the global context"; checked on every run)',
    'extraction: Coq extraction plugin with ExtrOcamlBasic only (its Extract Inductive for bool, option, unit, list, prod, sumbool, sumor; no Extract Constant of ours); OCaml 4.13.1 ocamlfind ocamlopt',
    'driver/driver.ml (parsing and printing of the value text format only)',
    'harness/ (Rust, public API of typed-path only, rebuilt against /repo on every run) and tools/*.py (generation, diff, verdict)',
    'correspondence is differential testing: agreement of model and code is established on the explored cases only',
    'modelled, not verified: the Rust source text; rustc semantics of derive(PartialEq, Ord, Hash), match, slice and iterator primitives as transcribed in the model',
]
COMMON_ASSUMPTIONS = [
    'the hand-written Gallina model agrees with the code outside the explored cases (checked on them on every run)',
    'the value encoders/decoders of Run.v are faithful (exercised on every case: the model must pass its own oracle through them)',
]


def corpus_cases(pid):
    p = os.path.join(ROOT, 'corpus', pid + '.cases')
    if not os.path.exists(p):
        return []
    return [l.rstrip('\n') for l in open(p) if l.strip() and not l.startswith('#')]


def explain(pid, case):
    parts = case.split('\t')
    def show(a):
        if a.startswith('x'):
            try:
                return repr(bytes.fromhex(a[1:]))
            except ValueError:
                return a
        return a
    return {'op': parts[0], 'args': [show(a) for a in parts[1:]]}


def nontrivial_default(case, impl):
    """a case is non-trivial when its first argument parses to at least two path segments"""
    parts = case.split('\t')
    if len(parts) < 2 or not parts[1].startswith('x'):
        return False
    try:
        b = bytes.fromhex(parts[1][1:])
    except ValueError:
        return False
    return len(usegs(b, b'/\\')) >= 2


def count_nontrivial(pid, recs):
    f = PROPS[pid].get('nontrivial', nontrivial_default)
    seen = set()
    for case, impl, rl in recs:
        if case in seen:
            continue
        if f(case, impl):
            seen.add(case)
    return len(seen)


# ---------------------------------------------------------------- C01

def gen_c01(tier, rng):
    cases, dist = [], {'len': {}, 'ncomp': {}, 'stream': {}}
    def add(s, sc, stream):
        cases.append('c01\t%s\t%s' % (hx(s), hx(sc)))
        hist(dist['len'], min(len(s), 64)); hist(dist['stream'], stream)
    k6, k4 = (5, 8) if tier == 'quick' else (6, 10)
    # bounded exhaustive: 6-byte alphabet, all schedules of length ncomps+1 (capped)
    for s in strings_upto([0x2f, 0x2e, 0x61, 0x62, 0x00, 0xff], k6):
        n = len(usegs(s)) + 1
        hist(dist['ncomp'], n - 1)
        for sc in scheds(min(n + 1, 5)):
            add(s, sc, 'exh6')
    for s in strings_upto([0x2f, 0x2e, 0x61], k4):
        if len(s) <= k6:
            continue
        n = len(usegs(s)) + 1
        hist(dist['ncomp'], n - 1)
        for sc in scheds(min(n + 1, 6)):
            add(s, sc, 'exh3')
    # structured random, longer
    nrand = 20000 if tier == 'quick' else 300000
    for _ in range(nrand):
        s = random_unix_path(rng, 8)
        n = len(usegs(s)) + 2
        sc = bytes(rng.randint(0, 1) for _ in range(n + 1))
        add(s, sc, 'random')
    for _ in range(nrand // 10):
        s = random_bytes(rng, 16)
        sc = bytes(rng.randint(0, 1) for _ in range(len(usegs(s)) + 3))
        add(s, sc, 'malformed')
    for s in boundary_paths(False)[::(2 if tier == 'quick' else 1)]:
        n = len(usegs(s)) + 2
        for sc in (bytes([0] * n), bytes([1] * n), bytes([i % 2 for i in range(n)]), bytes(rng.randint(0, 1) for _ in range(n))):
            add(s, sc, 'boundary')
    # the same schedules through the generic components API next to real std::path (remainders, offsets,
    # what the partially consumed iterator reports about itself)
    for c in cases[::9]:
        parts = c.split('\t')
        cases.append('pair.c03\t' + parts[1] + '\t' + parts[2])
    # ... and through every other Unix-flavoured type of the crate (UTF-8, runtime-typed, owned, platform),
    # each compared with the byte family on the same schedule
    for c in cases[::7]:
        parts = c.split('\t')
        if not parts[0] == 'c01':
            continue
        ok8 = is_utf8(bytes.fromhex(parts[1][1:]))
        fams = ALL_BYTE['u'] + (ALL_UTF8['u'] if ok8 else [])
        cases.append('same.c03.' + rng.choice(fams) + '\t' + parts[1] + '\t' + parts[2])
    cases += cons_cases(tier, rng, encs=('u',))
    return cases, dist



def case(op, *args):
    return op + '\t' + '\t'.join(hx(a) if isinstance(a, (bytes, bytearray)) else a for a in args)


def vlist(items):
    return '[' + ' '.join(items) + ']'


def is_utf8(b):
    try:
        b.decode('utf-8'); return True
    except UnicodeDecodeError:
        return False


BYTE_FAMS = {'u': ['u', 'tu'], 'w': ['w', 'tw']}
UTF8_FAMS = {'u': ['u8', 't8u'], 'w': ['w8', 't8w']}
# every API family answered by the Unix / Windows byte model: borrowed, owned (b..), runtime-typed (t..), UTF-8 (..8..), platform (p..)
ALL_BYTE = {'u': ['tu', 'bu', 'tbu', 'pu'], 'w': ['tw', 'bw', 'tbw']}
ALL_UTF8 = {'u': ['u8', 't8u', 'b8u', 'tb8u', 'p8'], 'w': ['w8', 't8w', 'b8w', 'tb8w']}


def fams_for(enc, p_list, rng, all_fams=False):
    """which API families a case is sent to: always the byte family; the UTF-8 / typed families on a share of the cases"""
    fams = [enc]
    ok8 = all(is_utf8(p) for p in p_list)
    if all_fams:
        fams += [BYTE_FAMS[enc][1]] + (UTF8_FAMS[enc] if ok8 else [])
    else:
        r = rng.random()
        if r < 0.15:
            fams.append(rng.choice(ALL_BYTE[enc]))
        elif r < 0.40 and ok8:
            fams.append(rng.choice(ALL_UTF8[enc]))
    return fams


def upaths_exh(k6, k4):
    seen = set()
    for s in strings_upto(UALPHA6, k6):
        seen.add(s); yield s
    for s in strings_upto(UALPHA4[:3], k4):
        if s not in seen:
            yield s


def wpaths_exh(k7, kseed):
    seen = set()
    for s in strings_upto(WALPHA7, k7):
        seen.add(s); yield s
    for s in wpaths_seeded(kseed):
        if s not in seen:
            seen.add(s); yield s


def unary_paths(enc, tier, rng, dist, scale=1.0):
    """bounded-exhaustive + structured random + malformed + UTF-8 multi-byte inputs for one encoding"""
    out = []
    if enc == 'u':
        k6, k4 = (5, 8) if tier == 'quick' else (6, 10)
        for s in upaths_exh(k6, k4):
            out.append((s, 'exh'))
    else:
        k7, ks = (4, 4) if tier == 'quick' else (5, 5)
        for s in wpaths_exh(k7, ks):
            out.append((s, 'exh'))
    nr = int((20000 if tier == 'quick' else 200000) * scale)
    for _ in range(nr):
        out.append(((random_unix_path(rng, 7) if enc == 'u' else random_win_path(rng, 6)), 'random'))
    for _ in range(nr // 8):
        out.append((random_bytes(rng, 14), 'malformed'))
    for s in utf8_strings_upto(3 if tier == 'quick' else 4):
        out.append((s, 'utf8exh'))
    for _ in range(nr // 4):
        out.append((random_utf8_path(rng, enc == 'w'), 'utf8random'))
    bstride = 1 if scale >= 0.5 else (2 if scale >= 0.25 else 4)
    for s in boundary_paths(enc == 'w')[::bstride]:
        out.append((s, 'boundary'))
    for s, st in out:
        hist(dist.setdefault('stream', {}), st)
        hist(dist.setdefault('len', {}), min(len(s), 32))
    return out


def seg_count(enc, s):
    return len(usegs(s, b'/' if enc == 'u' else b'/\\'))


CONS_FAMS = {'u': ['u', 'bu', 'tu', 'tbu', 'pu', 'u8', 'b8u', 't8u', 'tb8u', 'p8'],
             'w': ['w', 'bw', 'tw', 'tbw', 'w8', 'b8w', 't8w', 'tb8w']}


def cons_cases(tier, rng, encs=('u', 'w'), n=None, same=False):
    """self-consistency op (iterator std methods, comparisons between types, component Eq/Ord/Hash, platform = native,
       parity of partially consumed Components) over every API family; with same=True the UTF-8 / typed families are
       additionally put next to the byte family of their encoding"""
    out = []
    n = n or (4000 if tier == 'quick' else 40000)
    for enc in encs:
        pool = [x for x, _ in unary_paths(enc, 'quick', rng, {}, 0.1)]
        for _ in range(n):
            a = rng.choice(pool)
            b = respell(a, enc, rng) if rng.random() < 0.6 else rng.choice(pool)
            fam = rng.choice(CONS_FAMS[enc])
            if '8' in fam and not (is_utf8(a) and is_utf8(b)):
                fam = enc
            op = 'cons.' + fam
            if same and fam not in ('u', 'w'):
                op = 'same.' + op
            out.append(case(op, a, b))
    return out


def gen_c03(tier, rng):
    cases, dist = [], {}
    for enc in ('u', 'w'):
        for s, st in unary_paths(enc, tier, rng, dist, 0.5):
            n = seg_count(enc, s) + 2
            hist(dist.setdefault('ncomp', {}), min(n - 2, 12))
            if st == 'exh' and n <= 5:
                scs = list(scheds(n))
                if len(scs) > 8:
                    scs = rng.sample(scs, 8) + [bytes([0] * n), bytes([1] * n)]
            else:
                scs = [bytes(rng.randint(0, 1) for _ in range(n + 1)), bytes([0] * (n + 1)), bytes([1] * (n + 1))]
            for sc in scs:
                for fam in fams_for(enc, [s], rng):
                    cases.append(case('c03.' + fam, s, sc))
    cases += cons_cases(tier, rng)
    return cases, dist


def gen_unary(op, encs=('u', 'w'), scale=1.0, fam_filter=None):
    def g(tier, rng):
        cases, dist = [], {}
        for enc in encs:
            for s, st in unary_paths(enc, tier, rng, dist, scale):
                for fam in fams_for(enc, [s], rng):
                    if fam_filter and not fam_filter(fam):
                        continue
                    cases.append(case(op + '.' + fam, s))
        return cases, dist
    return g


def short_args(enc, k):
    alpha = UALPHA4 if enc == 'u' else WALPHA4 + [0x3a, 0x43]
    return list(strings_upto(alpha, k))


def gen_pairs(op, encs=('u', 'w'), second='paths', scale=1.0, fam_filter=None, extra_second=None):
    """pairs (a, b): a from the structured base pool + random, b exhaustive short + random"""
    def g(tier, rng):
        cases, dist = [], {}
        for enc in encs:
            bases = base_pool(enc == 'w', rich=(tier != 'quick'))
            k = 3 if tier == 'quick' else 4
            if enc == 'u':
                k += 1
            bs = short_args(enc, k)
            if second == 'names':
                bs = [x for x in bs if len(x) <= 3] + [b'x', b'y.z', b'..', b'.', b'', b'a/b', b'a\\b', b'n.tar.gz', b'\xc3\xa9.t', b'a:b', b'C:']
            if extra_second:
                bs = bs + extra_second
            hist(dist.setdefault('bases', {}), enc + str(len(bases)))
            budget = int((400000 if tier == 'quick' else 3000000) * scale / len(encs))
            pairs = []
            if len(bases) * len(bs) <= budget:
                pairs = [(a, b) for a in bases for b in bs]
            else:
                for a in bases:
                    for b in rng.sample(bs, max(1, budget // len(bases))):
                        pairs.append((a, b))
            nr = int((30000 if tier == 'quick' else 300000) * scale)
            mk = (lambda: random_unix_path(rng, 5)) if enc == 'u' else (lambda: random_win_path(rng, 4))
            pool = [mk() for _ in range(max(50, nr // 20))]
            for _ in range(nr):
                a = rng.choice(pool) if rng.random() < 0.5 else mk()
                r = rng.random()
                if r < 0.3:
                    b = rng.choice(bs)
                elif r < 0.5:
                    # related spelling of a (prefix / re-spelling)
                    b = respell(a, enc, rng)
                else:
                    b = rng.choice(pool) if rng.random() < 0.5 else mk()
                pairs.append((a, b))
            for _ in range(nr // 6):
                pairs.append((random_utf8_path(rng, enc == 'w'), random_utf8_path(rng, enc == 'w', 3)))
            bp = boundary_pairs(enc == 'w')
            bstride = max(1, int((3 if tier == 'quick' else 1) / max(scale, 0.1)))
            pairs += bp[::bstride]
            hist(dist.setdefault('boundary_pairs', {}), enc + str(len(bp[::bstride])))
            for a, b in pairs:
                hist(dist.setdefault('lenA', {}), min(len(a), 24)); hist(dist.setdefault('lenB', {}), min(len(b), 24))
                for fam in fams_for(enc, [a, b], rng):
                    if fam_filter and not fam_filter(fam):
                        continue
                    cases.append(case(op + '.' + fam, a, b))
        return cases, dist
    return g


def respell(a, enc, rng):
    """a different spelling (or a leading / trailing part) of the same path"""
    b = bytearray(a)
    r = rng.random()
    if r < 0.25 and len(b) > 0:
        cut = rng.randint(0, len(b))
        return bytes(b[:cut])
    if r < 0.4 and len(b) > 0:
        cut = rng.randint(0, len(b))
        return bytes(b[cut:])
    out = bytearray()
    for ch in b:
        if enc == 'w' and ch in (0x5c, 0x2f):
            out.append(rng.choice([0x5c, 0x2f]))
            if rng.random() < 0.2:
                out.append(rng.choice([0x5c, 0x2f]))
            if rng.random() < 0.1:
                out += b'.' + bytes([rng.choice([0x5c, 0x2f])])
        elif enc == 'u' and ch == 0x2f:
            out += b'/' * rng.choice([1, 1, 2]) + (b'./' if rng.random() < 0.15 else b'')
        elif enc == 'w' and chr(ch).isalpha() and rng.random() < 0.3:
            out.append(ch ^ 0x20)
        else:
            out.append(ch)
    if rng.random() < 0.3:
        out += rng.choice([b'/', b'/.', b'\\'] if enc == 'w' else [b'/', b'/.', b'//'])
    return bytes(out)


HOPS = ['push', 'push', 'push', 'pop', 'sfn', 'sext', 'clear', 'extend', 'collect', 'join', 'wfn', 'pushc', 'wext', 'norm',
        'reserve', 'shrinkfit', 'shrinkto', 'clonefrom']        # every &mut self method of the owned buffers
NUM_ARGS = [0, 1, 7, 8, 9, 16, 64, 100]
HARGS_U = [b'', b'a', b'/', b'/b', b'..', b'.', b'a/b', b'c.d', b'x/', b'./y', b'.e', b'f.', b'a.b.c', b'//', b'\xc3\xa9']
HARGS_W = [b'', b'a', b'\\', b'\\b', b'..', b'.', b'a\\b', b'c.d', b'x/', b'C:', b'C:z', b'D:\\q', b'/r', b'\\\\s\\sh', b'./y', b'a.b.c',
           b'\\\\?\\C:\\v', b'f.']
HINIT_U = [b'', b'/', b'a', b'/a/b', b'a/b/', b'a.b', b'/x.y/z.w', b'..', b'a/..', b'./a', b'a//b/.']
HINIT_W = [b'', b'\\', b'a', b'C:', b'C:\\', b'C:a', b'\\\\s\\sh', b'\\\\s\\sh\\a', b'\\\\?\\C:\\a', b'\\\\?\\pic', b'a/b\\', b'/a.b',
           b'\\\\.\\dev', b'\\\\?\\UNC\\s\\sh\\x.y', b'c:x.y/']


def hop_val(op, args, rng, std_ok):
    if op in ('pop', 'clear', 'norm', 'shrinkfit'):
        return '(%s)' % op
    if op in ('reserve', 'shrinkto'):
        return '(%s i%d)' % (op, rng.choice(NUM_ARGS))
    if op in ('extend', 'collect'):
        n = rng.randint(0, 3)
        return '(%s %s)' % (op, vlist([hx(rng.choice(args)) for _ in range(n)]))
    a = rng.choice(args)
    if op in ('sext', 'wext') and std_ok:
        while b'/' in a:       # std panics by contract on a separator in the extension
            a = rng.choice(args)
    return '(%s %s)' % (op, hx(a))


def gen_hist(enc, fams, tier, rng, dist, ops=None, std=False, n_random=None, maxlen=None):
    cases = []
    args = HARGS_U if enc == 'u' else HARGS_W
    inits = HINIT_U if enc == 'u' else HINIT_W
    ops = ops or HOPS
    # exhaustive short histories over a reduced op/arg set
    depth = 2 if tier == 'quick' else 3
    small_ops = [o for o in dict.fromkeys(ops)]
    small_args = args[:8]
    singles = []
    for o in small_ops:
        if o in ('pop', 'clear', 'norm', 'shrinkfit'):
            singles.append('(%s)' % o)
        elif o in ('reserve', 'shrinkto'):
            singles += ['(%s i%d)' % (o, k) for k in (0, 64)]
        elif o in ('extend', 'collect'):
            singles.append('(%s %s)' % (o, vlist([hx(small_args[1]), hx(small_args[3])])))
        else:
            for a in small_args:
                if std and o in ('sext', 'wext') and b'/' in a:
                    continue
                singles.append('(%s %s)' % (o, hx(a)))
    for init in inits:
        for h in itertools.product(singles, repeat=depth):
            for fam in fams:
                cases.append('hist.%s\t%s\t%s' % (fam, hx(init), vlist(h)))
    nr = n_random if n_random is not None else (20000 if tier == 'quick' else 200000)
    ml = maxlen or (12 if tier == 'quick' else 40)
    for _ in range(nr):
        init = rng.choice(inits) if rng.random() < 0.7 else (random_unix_path(rng, 4) if enc == 'u' else random_win_path(rng, 3))
        n = rng.randint(1, ml)
        h = [hop_val(rng.choice(ops), args, rng, std) for _ in range(n)]
        hist(dist.setdefault('histlen', {}), n)
        for fam in fams:
            cases.append('hist.%s\t%s\t%s' % (fam, hx(init), vlist(h)))
    # boundary buffers: deep and long initial paths, then a few operations with ordinary and boundary arguments
    # (depth of the rebuilt component list, spill boundaries of small buffers, long names and extensions)
    bps = [x for x in boundary_paths(enc == 'w') if len(x) <= 300]
    bstride = 6 if tier == 'quick' else 1
    bargs = list(args) + [b'..' , b'n' * 64, b'x' * 28 + b'.txt', b'e' * 33]
    for init in bps[::bstride]:
        n = rng.randint(1, 4)
        h = [hop_val(rng.choice(ops), bargs, rng, std) for _ in range(n)]
        for fam in fams:
            cases.append('hist.%s\t%s\t%s' % (fam, hx(init), vlist(h)))
    hist(dist.setdefault('stream', {}), 'boundary-histories')
    return cases


# ---------------------------------------------------------------- the stateful stream
# An owned buffer or a partially consumed iterator is an object with hidden state (capacity, caches, parser
# flags).  Whatever operation a property is about, it must give the same answer after any earlier operation on
# the same object.  Fixed, the same for every property: each operation under test preceded by every one and
# every two operations of the whole alphabet (one representative argument each), on initial buffers chosen for
# their shape (ending in a "." component, bare prefixes, verbatim prefixes, names with extensions, multi-byte
# characters), over every API family in turn.
import random as _random
FRNG = _random.Random(20261002)      # family / prefix choice of the stateful and product streams: fixed seed, no stride aliasing
ALLFAMS = {'u': ['u', 'u8', 'tu', 't8u', 'bu', 'b8u', 'tbu', 'tb8u', 'pu', 'p8'],
           'w': ['w', 'w8', 'tw', 't8w', 'bw', 'b8w', 'tbw', 'tb8w']}
SINIT_U = HINIT_U + [b'/srv/www/.', b'a/.', b'/a/./', b'x.tar.gz', b'/.', b'\xc3\xa9/b/c', b'/d/f.txt']
SINIT_W = HINIT_W + [b'\\\\s\\sh\\d\\.', b'C:\\a\\.', b'\\\\?\\C:\\d', b'\\\\?\\C:', b'\\\\?\\UNC\\s\\sh', b'\\\\.\\dev\\a', b'x.tar.gz',
                     b'\\\\?\\pic\\a\\.', b'\xc3\xa9\\b', b'C:\\d\\f.txt', b'\\\\?\\C:\\data\\run1']
SARGS_U = HARGS_U + [b'a/../b', b'x/.', b'dir/', b'n.e', b'.h', b'rs']
SARGS_W = HARGS_W + [b'a/../b', b'x/.', b'dir/', b'cache/../logs', b'n.e', b'rs', b'a\\..\\b']
# one representative argument per operation for the prefix of a history
REP_ARG = {'push': b'nm', 'pushc': b'nm', 'sfn': b'g.h', 'sext': b'rs', 'join': b'q', 'wfn': b'g.h', 'wext': b'rs', 'clonefrom': b'a'}


def rep_single(o):
    if o in ('pop', 'clear', 'norm', 'shrinkfit'):
        return ['(%s)' % o]
    if o == 'reserve':
        return ['(reserve i64)']
    if o == 'shrinkto':
        return ['(shrinkto i16)']
    if o in ('extend', 'collect'):
        return ['(%s %s)' % (o, vlist([hx(b'nm'), hx(b'..')]))]
    out = ['(%s %s)' % (o, hx(REP_ARG[o]))]
    if o == 'push':
        out.append('(push %s)' % hx(b'.'))
    return out


def stateful_hist_cases(tier, rng, dist, focus, encs=('u', 'w'), fam_filter=None):
    out = []
    alphabet = list(dict.fromkeys(HOPS))
    pre1 = [x for o in alphabet for x in rep_single(o)]
    pre2 = [(x, y) for x in pre1 for y in pre1]
    wide = len(focus) > 4
    k = 0

    def lasts_for(args, small):
        ls = []
        for o in focus:
            if o in ('pop', 'clear', 'norm', 'shrinkfit'):
                ls.append('(%s)' % o)
            elif o in ('reserve', 'shrinkto'):
                ls += ['(%s i%d)' % (o, n) for n in ((16,) if small else (0, 16, 100))]
            elif o in ('extend', 'collect'):
                ls.append('(%s %s)' % (o, vlist([hx(args[1]), hx(args[4])])))
            else:
                if small:
                    aa = [REP_ARG.get(o, b'nm')] if wide else [REP_ARG.get(o, b'nm'), args[-3], args[4]]
                else:
                    aa = args[::3] if wide else args
                ls += ['(%s %s)' % (o, hx(a)) for a in aa]
        return ls

    def emit(fams, init, h):
        nonlocal k
        blob = init + b''.join(bytes.fromhex(x) for x in re.findall(r'x([0-9a-f]*)', ' '.join(h)))
        fam = FRNG.choice(fams)
        k += 1
        if '8' in fam and not is_utf8(blob):
            plain = [f for f in fams if '8' not in f]
            if not plain:
                return
            fam = FRNG.choice(plain)
        out.append('hist.%s\t%s\t%s' % (fam, hx(init), vlist(h)))

    for enc in encs:
        inits = SINIT_U if enc == 'u' else SINIT_W
        args = SARGS_U if enc == 'u' else SARGS_W
        fams = [f for f in ALLFAMS[enc] if not fam_filter or fam_filter(f)]
        full, small = lasts_for(args, False), lasts_for(args, True)
        # the operation under test, alone and after every single operation: every initial shape, every argument
        for init in inits:
            for pre in [()] + [(x,) for x in pre1]:
                for last in full:
                    emit(fams, init, list(pre) + [last])
        # after every two operations: the shapes that matter for hidden state, representative arguments
        shapes = [x for x in inits if x] [::2] if tier == 'quick' else inits
        stride = (3 if wide else 1) if tier == 'quick' else 1
        for init in shapes:
            for n, pre in enumerate(pre2):
                if n % stride:
                    continue
                for last in small:
                    emit(fams, init, list(pre) + [last])
    hist(dist.setdefault('stream', {}), 'stateful-histories')
    return out


def stateful_sched_cases(tier, rng, dist, encs=('u', 'w'), fam_filter=None):
    """front/back schedules (every step on a clone of the partially consumed iterator, every accessor asked of the
       remainder) over every family, on shaped inputs: prefixes of every kind, verbatim bodies with '/' and '.',
       multi-byte characters next to both ends"""
    out = []
    shaped_u = SINIT_U + ['\u00e9/b/c'.encode(), 'a/\u20ac/c/\u00e9'.encode(), b'/a/b/c/d', b'a/./b/../c/', b'//a//b//']
    shaped_w = SINIT_W + [b'\\\\?\\C:\\dir/name\\.\\file.txt', b'\\\\?\\UNC\\s\\sh\\a/b\\.\\c', b'\\\\?\\pic\\a/b\\..\\c',
                          '\u00e9\\b\\c'.encode(), b'C:/a/./b\\c', b'\\\\s\\sh/a/./b', b'//?/C:/a/./b']
    k = 0
    for enc in encs:
        fams = [f for f in ALLFAMS[enc] if not fam_filter or fam_filter(f)]
        for s_ in (shaped_u if enc == 'u' else shaped_w):
            n = seg_count(enc, s_) + 2
            scs = list(scheds(n)) if n <= 5 else [bytes(rng.randint(0, 1) for _ in range(n + 1)) for _ in range(24)]
            scs += [bytes([0] * (n + 1)), bytes([1] * (n + 1)), bytes([0, 1] * n), bytes([1, 0] * n), bytes([0, 0, 1] * n)]
            for sc in scs:
                for _ in range(2):
                    fam = FRNG.choice(fams)
                    k += 1
                    if '8' in fam and not is_utf8(s_):
                        continue
                    out.append(case('c03.' + fam, s_, sc))
    hist(dist.setdefault('stream', {}), 'stateful-schedules')
    return out


# The two streams multiplied: a stateful history or schedule whose operands come from the boundary-value classes
# (lengths and counts around powers of two, every byte value, multi-byte characters, every prefix spelling).
CAP_PREFIXES = [('(reserve i300)',), ('(push %s)' % hx(b'q' * 300), '(pop)'), ('(clear)', None)]


def boundary_operands(enc):
    """single names drawn from the boundary classes: lengths around powers of two (with and without extensions),
       every byte value inside a name, dot-leading and dot-trailing names, multi-byte characters at both ends"""
    sep = b'\\' if enc == 'w' else b'/'
    out = list(boundary_names())
    for v in range(1, 256):
        c = bytes([v])
        if c in (b'/', b'\\'):
            continue
        out.append(b'nm' + c + b'x.e')
        out.append(c + b'tail')
    out += [b'.hidden', b'.profile.d', b'..x', b'name.', b'v1..old', b'v1..', b'a.b.', b'.', b'..']
    for ch in ('\u00e9', '\u012f', '\u20ac', '\U0001F33A'):
        e = ch.encode()
        out += [e + b'uro.txt', b'caf' + e + b'.txt', b'a' * 7 + e, e * 8]
    seen, res = set(), []
    for x in out:
        if x not in seen:
            seen.add(x); res.append(x)
    return res


def product_hist_cases(tier, rng, dist, focus, encs=('u', 'w'), fam_filter=None):
    out = []
    k = 0
    for enc in encs:
        win = enc == 'w'
        sep = b'\\' if win else b'/'
        fams = [f for f in ALLFAMS[enc] if not fam_filter or fam_filter(f)]
        names = boundary_operands(enc)
        bases = ([b'/srv/data', b'srv', b'/srv///data', b'/srv/./data', b'a/b/'] if not win else
                 [b'C:\\srv\\data', b'C:', b'\\\\?\\C:\\data\\logs', b'//?/C:/out', b'\\\\.\\C:', b'\\\\s\\sh\\d', b'//?/UNC/srv/share/a/b', b'srv\\\\data'])
        arg_ops = [o for o in focus if o in ('push', 'pushc', 'sfn', 'sext', 'join', 'wfn', 'wext', 'clonefrom')]
        noarg_ops = [o for o in focus if o in ('pop', 'norm')]

        def emit(init, h):
            nonlocal k
            blob = init + b''.join(bytes.fromhex(x) for x in re.findall(r'x([0-9a-f]*)', ' '.join(h)))
            fam = FRNG.choice(fams)
            k += 1
            if '8' in fam and not is_utf8(blob):
                plain = [f for f in fams if '8' not in f]
                if not plain:
                    return
                fam = FRNG.choice(plain)
            out.append('hist.%s\t%s\t%s' % (fam, hx(init), vlist(h)))

        # (1) the operation under test with a boundary operand, on a buffer an earlier operation left with room
        for o in arg_ops:
            for n in names:
                if o in ('sext', 'wext') and (b'/' in n or (win and b'\\' in n)):
                    continue
                for base in bases[:: (2 if tier == 'quick' and len(arg_ops) > 2 else 1)]:
                    pre = CAP_PREFIXES[FRNG.randrange(2)]
                    emit(base, list(pre) + ['(%s %s)' % (o, hx(n))])
                    k += 1
        # (2) a boundary name already in the buffer (as its last component, with and without trailing bytes), then room, then the operation
        tails = [b'', sep, sep + b'.']
        reps = {'push': b'nm', 'pushc': b'nm', 'sfn': b'new.md', 'sext': b'rs', 'join': b'q', 'wfn': b'g.h', 'wext': b'rs', 'clonefrom': b'a'}
        for n in names:
            for tl in tails[:: (1 if tier != 'quick' or len(focus) <= 4 else 3)]:
                init = bases[0] + sep + n + tl
                for o in arg_ops + noarg_ops:
                    last = '(%s)' % o if o in noarg_ops else '(%s %s)' % (o, hx(reps[o]))
                    emit(init, ['(reserve i300)', last])
                    if o in ('sext', 'sfn'):
                        emit(init, ['(%s %s)' % (o, hx(b'backup' if o == 'sext' else b'longer-name.bak')), last])
    hist(dist.setdefault('stream', {}), 'product-histories')
    return out


def product_sched_cases(tier, rng, dist, encs=('u', 'w'), fam_filter=None):
    """the boundary paths under the schedules that mix the two ends: k front steps then back steps, a back step
       between front steps; every family in turn"""
    out = []
    k = 0
    for enc in encs:
        win = enc == 'w'
        sep = b'\\' if win else b'/'
        fams = [f for f in ALLFAMS[enc] if not fam_filter or fam_filter(f)]
        paths = [x for x in boundary_paths(win) if len(x) <= 700][:: (5 if tier == 'quick' else 1)]
        heads = [b'a' + sep + b'b' + sep, b'projects' + sep + b'site' + sep] + ([b'C:' + sep + b'd' + sep, b'\\\\?\\C:\\logs\\.\\'] if win else [b'/home/user/'])
        for n in boundary_operands(enc):
            for hd in heads[:: (2 if tier == 'quick' else 1)]:
                paths.append(hd + n + sep + b'build')
                paths.append(hd + n)
        # dot and separator groups behind a name (the shapes the front and back trimming loops branch on)
        for g in (b'.', b'..'):
            for a_ in range(1, 4):
                for b_ in range(1, 4):
                    paths.append(b'a' + sep + b'b' + sep * a_ + g + sep * b_ + b'.' + sep + b'c' + sep + b'd')
                    paths.append(b'usr' + sep + b'lib' + sep + g + sep * a_ + b'.' + sep * b_ + b'x86' + sep + b'cc')
        for s_ in paths:
            n = seg_count(enc, s_) + 2
            scs = [bytes([0] * j + [1] * (n + 1)) for j in (1, 2, 3)] + [bytes([1] + [0] * (n + 1)), bytes([0, 1, 0] + [1] * n), bytes([0, 1] + [0] * n)]
            if n > 40:
                scs = scs[:2]
            for sc in scs:
                fam = FRNG.choice(fams)
                k += 1
                if '8' in fam and not is_utf8(s_):
                    plain = [f for f in fams if '8' not in f]
                    if not plain:
                        continue
                    fam = FRNG.choice(plain)
                out.append(case('c03.' + fam, s_, sc))
    hist(dist.setdefault('stream', {}), 'product-schedules')
    return out


def with_state(g, focus, encs=('u', 'w'), sched=False, fam_filter=None):
    def h(tier, rng):
        cases, dist = g(tier, rng)
        cases = cases + stateful_hist_cases(tier, rng, dist, focus, encs=encs, fam_filter=fam_filter)
        if focus:
            cases = cases + product_hist_cases(tier, rng, dist, focus, encs=encs, fam_filter=fam_filter)
        if sched:
            cases = cases + stateful_sched_cases(tier, rng, dist, encs=encs, fam_filter=fam_filter)
            cases = cases + product_sched_cases(tier, rng, dist, encs=encs, fam_filter=fam_filter)
        return cases, dist
    return h


ALL_FOCUS = list(dict.fromkeys(HOPS))


def sweep256(enc):
    """every byte value in the positions where a single byte is classified"""
    out = []
    for v in range(256):
        x = bytes([v])
        out += [x, x + b':', x + b':\\a', b'a' + x, b'a' + x + b'b', x + b'b', b'/' + x, b'd/' + x + b'/e', b'\\\\?\\' + x + b':\\q',
                b'\\\\?\\n' + x + b'm\\q', b'\\\\s\\h' + x, x + x + b'?' + x + b'a', b'\\' + x + b'?\\a', b'\\\\' + x + b'\\a', b'\\\\?' + x + b'a']
    return out


def gen_c02(tier, rng):
    cases, dist = gen_unary('c02', encs=('w',), fam_filter=lambda f: f in ('w', 'w8'))(tier, rng)
    for s in sweep256('w'):
        cases.append(case('c02.w', s))
        if is_utf8(s):
            cases.append(case('c02.w8', s))
    hist(dist.setdefault('stream', {}), 'sweep256')
    # the prefix / root queries asked of a partially consumed iterator (byte and UTF-8 components): schedules
    # of front and back steps, the iterator reporting about itself after every step
    extra = []
    for c in cases[::3]:
        parts = c.split('\t')
        if parts[0] not in ('c02.w', 'c02.w8'):
            continue
        sb = bytes.fromhex(parts[1][1:])
        n = seg_count('w', sb) + 2
        for sc in (bytes(rng.randint(0, 1) for _ in range(n + 1)), bytes([1] * (n + 1))):
            extra.append(case('c03.' + parts[0].split('.')[1], sb, sc))
    cases += extra
    return cases, dist


def gen_c17(tier, rng):
    cases, dist = gen_unary('c17', scale=0.5)(tier, rng)
    for enc in ('u', 'w'):
        for s in sweep256(enc):
            for fam in fams_for(enc, [s], rng, all_fams=True):
                cases.append(case('c17.' + fam, s))
            # the InvalidFilename verdict of the checked conversions (to the other and to the own encoding)
            cases.append(case('c16.' + enc, s))
    c16, _ = gen_unary('c16', scale=0.2, fam_filter=lambda f: f in ('u', 'w', 'u8', 'w8'))(tier, rng)
    cases += c16
    # ... also through the runtime-typed (borrowed and owned, byte and UTF-8) conversions
    cases += refamily(c16[::3], rng, 'typed') + refamily(c16[::5], rng, 'utf8')
    return cases, dist


def gen_c06(tier, rng):
    cases, dist = gen_pairs('c06', encs=('u',), fam_filter=lambda f: f == 'u')(tier, rng)
    out = [c.replace('c06.u\t', 'pair.c06\t', 1) for c in cases]
    # the same queries through the UTF-8 / runtime-typed / owned / platform Unix types, each next to the byte family
    for c in cases[::4]:
        parts = c.split('\t')
        ok8 = all(is_utf8(bytes.fromhex(x[1:])) for x in parts[1:])
        fams = ALL_BYTE['u'] + (ALL_UTF8['u'] if ok8 else [])
        out.append('same.c06.' + rng.choice(fams) + '\t' + '\t'.join(parts[1:]))
    out += cons_cases(tier, rng, encs=('u',))
    return out, dist


STD_HOPS = [o for o in HOPS if o not in ('pushc', 'norm')]


def gen_c07(tier, rng):
    dist = {}
    cases = gen_hist('u', ['x'], tier, rng, dist, ops=STD_HOPS, std=True)
    out = [c.replace('hist.x\t', 'pair.hist\t', 1) for c in cases]
    # the same histories on the UTF-8 / runtime-typed / platform Unix buffers, each next to the byte buffer
    for c in cases[::3]:
        blobs = re.findall(r'x([0-9a-f]*)', c)
        ok8 = all(is_utf8(bytes.fromhex(x)) for x in blobs)
        fams = ['tu', 'bu', 'tbu', 'pu'] + (['u8', 't8u', 'b8u', 'tb8u', 'p8'] if ok8 else [])
        out.append(c.replace('hist.x\t', 'same.hist.' + rng.choice(fams) + '\t', 1))
    return out, dist


def gen_c08(tier, rng):
    cases, dist = gen_pairs('c08', encs=('w',))(tier, rng)
    # sequences of pushes starting from an empty buffer
    args = HARGS_W
    n = 20000 if tier == 'quick' else 200000
    for _ in range(n):
        k = rng.randint(1, 5)
        h = ['(push %s)' % hx(rng.choice(args) if rng.random() < 0.7 else random_win_path(rng, 2)) for _ in range(k)]
        fam = rng.choice(['w', 'w', 'w', 'tw'])
        cases.append('hist.%s\tx\t%s' % (fam, vlist(h)))
    return cases, dist


EXTS = [b'', b'rs', b'tar.gz', b'.', b'x.', b'.x', b'e' * 70, '\u00e9\u00e9'.encode(), b'a b', b'..']


def gen_c13(tier, rng):
    cases, dist = gen_pairs('c13', second='names', scale=0.6, extra_second=EXTS)(tier, rng)
    # the Unix byte family next to std::path::PathBuf::set_extension (no separator in the extension: std panics by contract)
    ups = list(strings_upto(UALPHA4, 5 if tier == 'quick' else 6))
    for p in ups:
        for e in (b'', b'x', b'tar.gz') if len(p) > 3 else EXTS:
            if b'/' not in e:
                cases.append(case('pair.c13', p, e))
    for _ in range(20000 if tier == 'quick' else 200000):
        p = random_unix_path(rng, 6)
        e = rng.choice(EXTS + [b'y'])
        cases.append(case('pair.c13', p, e))
    # repeated application
    for _ in range(5000 if tier == 'quick' else 50000):
        enc = rng.choice(['u', 'w'])
        p = random_unix_path(rng, 4) if enc == 'u' else random_win_path(rng, 3)
        h = ['(sext %s)' % hx(rng.choice(EXTS)) for _ in range(rng.randint(2, 5))]
        for fam in fams_for(enc, [p], rng):
            cases.append('hist.%s\t%s\t%s' % (fam, hx(p), vlist(h)))
    # UTF-8 multi-byte names next to dots and separators
    for _ in range(20000 if tier == 'quick' else 100000):
        enc = rng.choice(['u', 'w'])
        p = random_utf8_path(rng, enc == 'w')
        e = rng.choice(EXTS)
        if is_utf8(e):
            cases.append(case('c13.' + rng.choice(UTF8_FAMS[enc]), p, e))
    return cases, dist


def refamily(cases, rng, want):
    """re-target generated cases at the UTF-8 / runtime-typed families (model answers stay the byte model's)"""
    out = []
    for c in cases:
        parts = c.split('\t')
        op = parts[0]
        if '.' not in op:
            continue
        name, fam = op.split('.', 1)
        if fam not in ('u', 'w') or name in ('c02', 'pair'):
            if not (name == 'c02' and want == 'utf8' and fam == 'w'):
                continue
        blobs = re.findall(r'x([0-9a-f]*)', '\t'.join(parts[1:]))
        if want == 'utf8':
            if not all(is_utf8(bytes.fromhex(x)) for x in blobs):
                continue
            choices = ALL_UTF8[fam] if name not in ('c02', 'c16') else [fam + '8']
            if name == 'c16':
                choices = [fam + '8', 't8' + fam, 'tb8' + fam]
        else:
            ok8 = all(is_utf8(bytes.fromhex(x)) for x in blobs)
            choices = ['t' + fam, 'tb' + fam] + (['t8' + fam, 'tb8' + fam] if ok8 else [])
            if name != 'c16':
                choices += (['pu'] + (['p8'] if ok8 else [])) if fam == 'u' else []
        if name == 'c17':
            choices = [c for c in choices if not c.startswith('t')]
            if not choices:
                continue
        if False:
            continue      # the runtime-typed API has no is_valid; its checked join is covered by c04
        parts[0] = name + '.' + rng.choice(choices)
        out.append('\t'.join(parts))
    return out


MIX = None


def mixed_cases(tier, rng, scale=0.25):
    """a cross-section of every operation (byte families), used by C14 C15 C18 C20"""
    cases = []
    small = 'quick'
    for pid, g in [('C03', gen_c03), ('C04', gen_pairs('c04', scale=scale)), ('C05', gen_pairs('c05', scale=scale)),
                   ('C08', gen_pairs('c08', scale=scale)), ('C09', gen_unary('c09', scale=scale)),
                   ('C10', gen_pairs('c10', scale=scale)), ('C11', gen_unary('c11', scale=scale)),
                   ('C12', gen_pairs('c12', second='names', scale=scale)),
                   ('C13', gen_pairs('c13', second='names', scale=scale, extra_second=EXTS)),
                   ('C16', gen_unary('c16', scale=scale, fam_filter=lambda f: f in ('u', 'w'))), ('C17', gen_unary('c17', scale=scale)),
                   ('C02', gen_unary('c02', encs=('w',), scale=scale, fam_filter=lambda f: f == 'w'))]:
        cs, _ = g(small, rng)
        cs = [c for c in cs if c.split('\t')[0].split('.')[1] in ('u', 'w')]
        if tier == 'quick' and len(cs) > 60000:
            cs = rng.sample(cs, 60000)
        cases += cs
    d = {}
    for enc in ('u', 'w'):
        for c in gen_hist(enc, [enc], small, rng, d, n_random=int(20000 * scale * 2)):
            cases.append(c)
    return cases


def gen_c14(tier, rng):
    base = mixed_cases(tier, rng)
    cases = refamily(base, rng, 'utf8')
    dist = {'ops': {}}
    # UTF-8 multi-byte inputs through every operation
    for enc in ('u', 'w'):
        ps = list(utf8_strings_upto(3 if tier == 'quick' else 4))
        ps += [random_utf8_path(rng, enc == 'w') for _ in range(10000 if tier == 'quick' else 100000)]
        for p in ps:
            q = rng.choice(ps)
            f8 = enc + '8'
            t8 = 't8' + enc
            sc = bytes(rng.randint(0, 1) for _ in range(seg_count(enc, p) + 2))
            n = rng.choice([b'x', '\u00e9.\u20ac'.encode(), b'', b'.', b'y.z'])
            e = rng.choice([b'rs', b'', '\u00e9\u00e9'.encode(), b'e' * 40])
            fam = rng.choice([f8, f8, t8])
            cases += [case('c03.' + fam, p, sc), case('c09.' + fam, p), case('c04.' + fam, p, q), case('c05.' + fam, p, q),
                      case('c10.' + fam, p, q), case('c11.' + fam, p), case('c12.' + fam, p, n), case('c13.' + fam, p, e),
                      case('c16.' + fam, p), case('c17.' + f8, p), case('c14c', p)]
            if enc == 'w':
                cases.append(case('c02.w8', p))
    # conversions between the byte and UTF-8 families on valid and invalid UTF-8
    for s in strings_upto([0x00, 0x7f, 0x80, 0x8f, 0x90, 0x9f, 0xa0, 0xbf, 0xc0, 0xc1, 0xc2, 0xdf, 0xe0, 0xed, 0xef, 0xf0, 0xf4, 0xf5, 0xff], 3 if tier == 'quick' else 4):
        cases.append(case('c14c', s))
    cases = [('same.' + c if re.match(r'c\d\d\.|hist\.', c) else c) for c in cases]
    for c in cases:
        hist(dist['ops'], c.split('\t')[0])
    return cases, dist


def gen_c15(tier, rng):
    base = mixed_cases(tier, rng)
    cases = refamily(base, rng, 'typed')
    dist = {'ops': {}}
    for enc in ('u', 'w'):
        for s, st in unary_paths(enc, tier, rng, {}, 0.3):
            cases.append(case('c15d', s))
    for s in sweep256('w'):
        cases.append(case('c15d', s))
    cases = [('same.' + c if re.match(r'c\d\d\.|hist\.', c) else c) for c in cases]
    for c in cases:
        hist(dist['ops'], c.split('\t')[0])
    return cases, dist


def long_inputs(rng, n):
    shapes = [b'/' * n, b'.' * n, b'./' * (n // 2), b'../' * (n // 3), b'a/' * (n // 2), b'a' * n, b'/a' * (n // 2), b'\\' * n,
              b'\\a' * (n // 2), b'a\\.\\' * (n // 4), b'C:' + b'\\x' * (n // 2), b'\\\\?\\C:' + b'\\y.' * (n // 3), b'\\\\s\\sh' + b'/..' * (n // 3),
              b'//' + b'?' * n, b'\\\\?\\' + b'/' * n, b'\\\\?\\UNC\\' + b's' * n, b'a.' * (n // 2), b'/.' * (n // 2) + b'x', b'x' + b'/.' * (n // 2),
              bytes(rng.randrange(256) for _ in range(n)), b'\xc3\xa9/' * (n // 3), b'\\\\.\\' + b'd' * n + b'\\' * 100]
    return shapes


def char_cut(s, k, fam):
    """s[:k], moved back to a character boundary for the UTF-8 families (they are only given valid UTF-8)"""
    if '8' in fam:
        while 0 < k < len(s) and (s[k] & 0xC0) == 0x80:
            k -= 1
    return s[:k]


def long_cases(rng, n):
    cases = []
    for s in long_inputs(rng, n):
        for enc in ('u', 'w'):
            sc = bytes(rng.randint(0, 1) for _ in range(64))
            fams = [enc, 't' + enc] + ([enc + '8'] if is_utf8(s) else [])
            for fam in fams:
                cases += [case('c03.' + fam, s, sc), case('c09.' + fam, s), case('c11.' + fam, s), case('c12.' + fam, s, b'n'),
                          case('c13.' + fam, s, b'e'), case('c17.' + fam, s), case('c05.' + fam, s, char_cut(s, len(s) - 1, fam)),
                          case('c10.' + fam, s, char_cut(s, len(s) // 2, fam)), case('c04.' + fam, b'base', s), case('c04.' + fam, s, b'x/../y'),
                          case('c08.' + fam, s, b'tail')]
                if fam in ('u', 'w', 'u8', 'w8'):
                    cases.append(case('c16.' + fam, s))
            cases.append(case('c02.w', s))
    return cases


def gen_c18_impl_only(tier, rng):
    """very long inputs: run on the implementation only (the model cannot exhibit stack depth or time)"""
    return long_cases(rng, 3000 if tier == "quick" else 12000)


def gen_c18(tier, rng):
    cases = mixed_cases(tier, rng, scale=0.15)
    dist = {'ops': {}}
    cases += long_cases(rng, 120 if tier == 'quick' else 400)
    for s in strings_upto([0x5c, 0x2f, 0x2e, 0x3a, 0x3f, 0x61, 0x43, 0x55, 0x4e, 0x00, 0xe9], 4 if tier == 'quick' else 5):
        cases.append(case('c02.w', s)); cases.append(case('c09.w', s)); cases.append(case('c09.u', s))
    # derive / From on every shape of short UTF-8 input (multi-byte characters in every position) and on random bytes
    for s in utf8_strings_upto(3 if tier == 'quick' else 4):
        cases.append(case('c15d', s))
    for _ in range(5000):
        cases.append(case('c15d', random_utf8_path(rng, rng.random() < 0.5)))
    for win in (False, True):
        for s in boundary_paths(win)[::(3 if tier == 'quick' else 1)]:
            cases.append(case('c15d', s))
        cases.append(case('c15d', random_bytes(rng, 8)))
    for c in cases:
        hist(dist['ops'], c.split('\t')[0])
    return cases, dist


def gen_c19(tier, rng):
    cases, dist = [], {}
    bnd = [0x00, 0x7f, 0x80, 0x8f, 0x90, 0x9f, 0xa0, 0xbf, 0xc0, 0xc1, 0xc2, 0xdf, 0xe0, 0xed, 0xef, 0xf0, 0xf4, 0xf5, 0xff]
    for s in strings_upto(bnd, 3 if tier == 'quick' else 4):
        cases.append(case('c19', s))
    for s in strings_upto([0x2f, 0x5c, 0x2e, 0x61, 0xc3, 0xa9, 0xe2, 0x82, 0xac, 0xf0], 4 if tier == 'quick' else 5):
        cases.append(case('c19', s))
    for _ in range(20000 if tier == 'quick' else 200000):
        r = rng.random()
        s = random_bytes(rng, 20) if r < 0.4 else (random_utf8_path(rng, rng.random() < 0.5) if r < 0.8 else random_win_path(rng))
        cases.append(case('c19', s))
    for win in (False, True):
        for s in boundary_paths(win)[::(3 if tier == 'quick' else 1)]:
            cases.append(case('c19', s))
        for s in boundary_paths(win)[1::(3 if tier == 'quick' else 1)]:
            cases.append(case('c15d', s))          # the same bytes through every construction route of the typed paths
    # pairs: equality / ordering / hash-equality are the same through every owned, boxed, shared, Cow, typed and mixed form
    pc, _ = gen_pairs('c19p', scale=0.25, fam_filter=lambda f: f in ('u', 'w'))(tier, rng)
    cases += pc
    return cases, dist


def gen_c20(tier, rng):
    cases = mixed_cases(tier, rng, scale=0.2)
    cases += refamily(cases[::7], rng, 'utf8') + refamily(cases[::11], rng, 'typed')
    # to_str / lossy / Display (also formatted with width, fill and precision) and every conversion chain, in both builds
    for _ in range(4000 if tier == 'quick' else 40000):
        r = rng.random()
        cases.append(case('c19', random_bytes(rng, 12) if r < 0.3 else (random_utf8_path(rng, rng.random() < 0.5) if r < 0.7 else random_unix_path(rng, 4))))
    dist = {'ops': {}}
    for c in cases:
        hist(dist['ops'], c.split('\t')[0])
    return cases, dist



def with_cons(g, encs=('u', 'w'), same=False):
    def h(tier, rng):
        cases, dist = g(tier, rng)
        return cases + cons_cases(tier, rng, encs=encs, same=same), dist
    return h


GEN_NOTE = ('bounded-exhaustive strings over the bytes the parsers branch on (Unix {/ . a b NUL 0xFF}, Windows {\\ / . : ? a C} '
            'and 45 prefix seeds x suffixes over {\\ / . a}), structured random paths, a malformed stream, and UTF-8 inputs with 2-, 3- '
            'and 4-byte characters; the byte family always, the UTF-8 / runtime-typed families on a share of the cases; a boundary-value stream '
            '(lengths and counts around powers of two, every byte value in every structural position, every drive letter, reserved names, '
            'separator runs); a stateful stream (every operation under test after every one and every two operations of the whole history '
            'alphabet -- all mutating methods of the owned buffers -- on shaped initial buffers over every family in turn, and front/back '
            'schedules with a clone after every step on shaped inputs); a self-consistency operation over the whole public surface')

def P(gen, level_text, level_note, rule=None, **kw):
    d = {'gen': gen, 'level': 'proof', 'level_text': level_text, 'level_note': level_note,
         'rule': (rule or GEN_NOTE) + '; non-trivial = the first argument has at least two non-empty segments; distinct by case line',
         'exhaustive_note': 'the bounded-exhaustive streams are complete for their stated alphabets and lengths; the input space itself is infinite (exhaustive=false)'}
    d.update(kw)
    return d

NOTE_CORR = ('Trusted: Coq kernel; extraction (ExtrOcamlBasic); driver/harness glue; the correspondence between the hand-written model and the '
             'code is differential testing on the explored cases (bounded-exhaustive + random), not a proof about the Rust text.')

PROPS = {
    'C01': {
        'gen': with_state(gen_c01, [], encs=('u',), sched=True),
        'level': 'proof',
        'rule': 'all byte strings up to length k over {/ . a b NUL 0xFF} (k=5 quick, 6 thorough) and up to length 8/10 over {/ . a}, '
                'each with all front/back schedules of length #components+2 (capped at 2^5 / 2^6), plus structured random and malformed '
                'streams; non-trivial = the path has at least two non-empty segments; distinct by (path, schedule)',
        'exhaustive_note': 'strings <= k over the 6-byte alphabet x all schedules (not the whole input space: exhaustive=false)',
        'assumptions': ['std::path of the toolchain the harness is compiled with is the oracle; it is run on every case'],
        'level_text': 'Proved in Coq for all byte strings and all front/back schedules: the model of the Unix parser yields exactly the pops of the declarative component list ucomps, every remainder re-parses to the un-consumed middle, has_root/is_absolute (also asked of the partially consumed iterator) and try_from agree with it (C01_holds, C01_interleave, C01_components). The Gallina transcription of std::path Components (front/back state machine with trimming as_path) yields the same list from the front, reversed from the back, and under EVERY interleaving of next / next_back (one invariant over all reachable states, including a back step taken after the front has entered the body); after every step its as_path remainder reads as the unconsumed components, so model and transcription agree step for step on every schedule; it reports a root exactly when the model does (C01_std_front, C01_std_back, C01_std_front_step, C01_std_back_step, C01_std_remainder_front/back, C01_std_interleave, C01_model_vs_std_interleave, C01_std_has_root). All closed under the global context. The model is tied to the code, and the transcription and ucomps to the real std::path, by running all of them on every explored case.',
        'level_note': 'Trusted: Coq kernel; extraction (ExtrOcamlBasic); driver/harness glue; the correspondence is sampled (bounded-exhaustive + random), so agreement of model and code, and of the std transcription and the real std::path, is established on the explored cases only. Arbitrary interleavings of front and back steps are proved for the model, front-only and back-only runs for the std transcription (C01_std_interleave_partial).',
        'design_ref': 'DESIGN.md 5/C01',
    },
    'C02': P(with_state(with_cons(gen_c02, encs=('w',)), [], encs=('w',), sched=True), 'Proved in Coq for all byte strings (Props/C02.v): the model prefix parser equals the declarative six-kind grammar, the component list equals the specification wspec, every prefix/root/absoluteness query equals its definition over that decomposition, drive letters are upper-case ASCII, at most one prefix and only first. The same specification is evaluated on the implementation output of every explored case (oracle_c02: components from both ends, 13 queries, try_from, prefix length/verbatim flag).', NOTE_CORR),
    'C03': P(with_state(gen_c03, [], sched=True), 'Double-ended coherence: interleaving theorem over the generic core parser (CoreSched.sched_spec) instantiated for Unix and for the Windows body; back = reverse of front, termination, permanent exhaustion, prefix only first; conservation at the level of the split (C03_conservation). The slice sentence is a theorem for the generic core and any schedule (C03_slices, C03_slices_ordered, C03_unix_slices): every normal name is the slice of the original input at the reported offset, the windows of unconsumed input are nested and each slice lies inside the window before its step and outside the one after it, so slices are pairwise disjoint, front slices ascend and back slices descend; the offsets are those the model prints (C03_unix_reported_offsets), compared with the implementation on every case. The same is a theorem for the whole Windows iterator (C03_windows_slices, C03_windows_reported_offsets): the prefix component is the leading slice of the window, the body is the generic core over what follows it, and the offsets are those the model prints.', NOTE_CORR),
    'C04': P(with_state(with_cons(gen_pairs('c04')), ['pushc']), 'Proved in Coq for all inputs (Props/C04.v): a checked push either fails and leaves the base byte-for-byte unchanged or succeeds with exactly the unchecked join, decided by the scan over the specification components of p (both encodings); the scan succeeds iff no prefix, no root, no normal name with a forbidden byte, and no .. outnumbering the normal names before it (Unix and Windows), otherwise it names the first offending component (Unix); containment: on success the result components begin with exactly the base components followed by p minus a leading . -- at Unix for every base, at Windows for every base that is prefix-free (not starting with two separators) or has a drive prefix (WinSimple.v), has a UNC / device / drive prefix followed by a non-empty rest (C04_windows_contains_prefixed, WinExtend.v: such a prefix is read the same way whatever follows it), is a bare UNC prefix with a non-empty share or a bare device prefix (C04_windows_contains_bare, WinBare.v: base, implied root, what p adds), or has a verbatim prefix followed by a root (C04_windows_contains_verbatim, WinVerbJoin.v: the join folds and re-renders; a writer/reader round-trip theorem shows the result reads back as the fold, and what the scan accepts never reaches below the base), or is a bare verbatim prefix joined with names (C04_windows_contains_bare_verbatim, WinVerbBare.v). For the remaining Windows bases (a bare verbatim prefix joined with a path that holds . or .., a verbatim drive followed by a rootless name, which Spec.wf_comps does not count as well-formed, and the finding classes) the containment sentence is stated over the specification by the oracle itself (Oracles.c04_contains) and evaluated on every explored pair; it fails on the unchanged crate only in two recorded input classes, the base of exactly two separators (D10) and the verbatim prefix named UNC (D17), each with a refuted-witness lemma.', NOTE_CORR),
    'C05': P(with_state(with_cons(gen_pairs('c05')), ['push', 'sfn'], sched=True), 'Proved in Coq for all byte strings, both encodings (Props/C05.v): equality iff equal specification component sequences (Windows prefixes by parsed kind), the order is the lexicographic lift of the component order and is total (antisymmetric, transitive, Equal iff equal), the hasher feed is the derived hash of the parsed prefix kind followed by the bytes of every non-root component and their total length, hence equal paths feed identical data (C05_unix_eq_same_hash, C05_windows_eq_same_hash, C05_windows_hash_feed; the separator scan is proved once for any separator test and normalisation flag). All closed under the global context; the same statements are evaluated on the implementation output (recorded Hasher calls) of every explored pair by oracle_c05.', NOTE_CORR),
    'C06': P(with_state(gen_c06, [], encs=('u',), sched=True), 'Proved in Coq for all byte strings (Props/C06.v): the Gallina transcription of std::path (Components state machine, as_path trimming, parent, file_name, file_stem, extension, starts_with, ends_with, strip_prefix, eq, cmp, ancestors) and the typed-path model give the same answer: components from both ends, eq, cmp, has_root, file_name/stem/extension byte for byte, starts_with, ends_with; parent and ancestors identical as byte strings (C06_parent_bytes: s_parent l = u_parent l for all l; the next_back + as_path trimming of std computes the skip-back-keep-the-lead function of the model; C06_ancestors_bytes); strip_prefix succeeds for both or neither with equal remainders as paths (bytes differ exactly in known class D8, refuted-witness lemma). The transcription is diffed against the real std::path on every explored case (pair.c06).', NOTE_CORR),
    'C07': P(with_state(with_cons(gen_c07, encs=('u',)), ALL_FOCUS, encs=('u',)), 'Proved in Coq (Props/C07.v): for EVERY history of push / pop / set_file_name / clear / extend / collect / join / with_file_name and every pair of component-equal start buffers, the typed-path buffer and the std::path::PathBuf transcription are component-equal after every step and every boolean result agrees (C07_history, by induction over the history); a non-empty push is the same byte function on both sides, also when std carries the extra trailing / left by an empty push (relation Rb). Rb is kept by ALL eight operations over every history (C07_history_bytes; pop and set_file_name by the byte identity of the two parents, C07_pop_keeps_R, C07_set_file_name_keeps_R), so after any history a push or join of a non-empty path leaves byte-identical buffers (C07_history_then_push_bytes). Every explored history is also run on the real std::path::PathBuf (pair.hist: booleans, component equality, byte equality after non-empty pushes).', NOTE_CORR),
    'C08': P(with_state(with_cons(gen_c08, encs=('w',)), ['push', 'join', 'extend', 'collect'], encs=('w',)), 'Proved in Coq for ALL pairs of byte strings: the model of WindowsEncoding::push equals the documented rule table Spec.join_spec (written over the grammar specification only), every history of pushes is the same fold of the table, empty b changes nothing, a prefixed b replaces a, the non-verbatim results are a (or its prefix) + optional separator + b, the verbatim step never lets a . or .. through (Props/C08.v: C08_bytes, C08_histories, C08_empty, C08_prefixed, C08_nonverbatim_bytes, C08_verbatim_step_clean; closed under the global context). join_spec itself is evaluated on the implementation output of every explored pair and push history (oracle_c08, oracle_hist). The component-level reading (a components followed by b components, a prefix followed by b for rooted b, bare drive without separator) is proved for every a that is prefix-free or has a drive prefix (C08_comps_plain, C08_comps_disk, C08_comps_rooted_disk), has a UNC / device / drive prefix followed by a non-empty rest (C08_comps_prefixed, C08_comps_rooted_prefixed, over C08_prefix_grammar_stable: such a prefix is read the same way whatever follows it), is a bare complete prefix (C08_comps_bare, C08_comps_rooted_bare: prefix, implied root, what b adds), or has a verbatim prefix followed by a root (C08_comps_verbatim: the result read again is exactly the fold of b into a; C08_verbatim_prefix_stable, C08_write_read_roundtrip), or is a bare verbatim prefix joined with names (C08_comps_bare_verbatim over C08_bare_verbatim_prefix_stable: prefix, implied root, the names); and over every HISTORY of pushes the components are the accumulated ones (C08_history_comps_plain, C08_history_comps_prefixed, C08_history_comps_verbatim: the prefix is read the same way after every step). What is left -- a bare verbatim prefix joined with a path that holds . / .. or a root, a verbatim drive followed by a rootless name, the verbatim prefix named UNC (D17, the exception the stability theorem carries, with a refuted-witness lemma) and a server with an empty share -- is decided by the C10 oracle.', NOTE_CORR),
    'C09': P(with_state(with_cons(gen_unary('c09')), ['pop']), 'Proved in Coq (Props/C09.v), Unix and Windows: parent is absent exactly when there is no component or the last one is a root or prefix; otherwise it is a leading slice of the input; pop truncates to it; the ancestors chain is finite. The components of the parent, READ AGAIN FROM SCRATCH, are those of the path without the last one -- at Unix from the back-step lemma of the core parser, at Windows for every input with all six prefix kinds and their look-alikes (C09_windows_parent, WinTrunc.v): the prefix grammar is stable under truncation of what follows the prefix (C09_prefix_truncation: every alternative is stable when its rest is shortened, failure of an alternative is inherited by every leading piece of the input), and the one exception, the verbatim prefix with the empty name truncated to nothing, cannot arise from a parent. The same holds along the whole ancestors chain (C09_windows_ancestors_chain). Tied to the code for all 18 families on every explored case (oracle_c09 re-parses the returned bytes with the specification).', NOTE_CORR),
    'C10': P(with_state(with_cons(gen_pairs('c10')), ['push', 'join', 'pop'], sched=True), 'Proved in Coq (Props/C10.v): for any double-ended component iterator whose components are determined by their bytes, helpers::iter_after decides exactly the leading-run / trailing-run relation (C10_abstract_front); at Unix, for all byte strings: starts_with iff q components are a leading run of p, ends_with mirror image, strip_prefix succeeds iff starts_with and its remainder re-parses to the rest, equal paths start/end with each other, a joined with a relative b starts with a and stripping yields what b adds. For prefix-free Windows paths components are determined by their bytes and the same theorems hold over wspec (C10_windows_*_plain). For EVERY pair of Windows paths one direction is a theorem (C10WinAll.v): whenever the components of q are a leading / trailing run of the components of p, starts_with / ends_with hold and strip_prefix succeeds with the rest (C10_windows_starts_with_complete, _ends_with_complete, _strip_prefix_complete, C10_windows_self), and the relations are characterised EXACTLY for every pair: starts_with / ends_with hold precisely when the byte spellings of the components of q are a leading / trailing run of the byte spellings of the components of p, and strip_prefix succeeds precisely when starts_with holds (C10_windows_starts_with_exact, _ends_with_exact, C10_windows_strip_iff_starts) -- the distance to the property sentence is exactly the finding D7; a join onto a base with a UNC / device / drive prefix and a non-empty rest starts with the base and stripping yields what b adds (C10_windows_join_starts_prefixed, _join_strip_prefixed), and a checked join onto a verbatim base followed by a root starts with the base (C10_windows_join_starts_verbatim). With prefixes components are not determined by their bytes: known finding D7; D10 and D15 are the two further Windows classes (refuted-witness lemmas); that outside the D7 class equal spellings mean equal components, and the re-reading of the remainder, are decided by oracle_c10 (component relations over the grammar spec, join-back, join consistency) on every explored pair.', NOTE_CORR),
    'C11': P(with_state(with_cons(gen_unary('c11')), ['norm']), 'Proved in Coq for all Unix byte strings (Props/C11.v): the normalised path read back is the lexical fold Spec.nfold of the input components, it contains no . or .., has the same root/absoluteness, and normalising again returns the same bytes (C11_unix_fold, C11_unix_clean, C11_unix_root, C11_unix_idempotent); the model fold equals Spec.nfold for any component list (C11_fold_is_nfold). Windows: the same three statements are proved for every prefix-free path whose names carry no drive look-alike (C11_windows_fold_plain, _idempotent_plain, _root_plain; C11_names_needed shows the hypothesis is necessary); the fold, idempotence and prefix-and-root-kept statements are also proved for every path with a UNC / device / drive prefix followed by a non-empty rest (C11_windows_fold_prefixed, _idempotent_prefixed, _head_prefixed) and, fold and idempotence, for every path with a verbatim prefix followed by a root (C11_windows_verbatim); bare prefixes and the verbatim prefixes named UNC or with the empty name are decided by oracle_c11 on every explored well-formed path.', NOTE_CORR),
    'C12': P(with_state(with_cons(gen_pairs('c12', second='names')), ['sfn', 'wfn']), 'Proved in Coq for all inputs (Props/C12.v): file_name is the last component when it is a normal name and absent otherwise (both encodings); stem, a dot and the extension reproduce the name when an extension exists and the stem is the whole name otherwise; the four documented cases of the split; Unix replacement by a single valid name n: the components are the old ones with the last replaced by n, so the file name is n and the parent is the old parent, and without a file name the result is the old path joined with n. Windows replacement (pop, then the Windows push): without a file name it is the join; with one, the result read again has the old components with the last replaced by n, for every parent that is prefix-free and non-empty or has a UNC / device / drive prefix followed by a non-empty rest (C12_windows_replace, over the re-parse theorem of C09 and WinExtend.v), a bare drive (C12_windows_replace_bare_drive) or a verbatim prefix followed by a root (C12_windows_replace_verbatim), and then the file name is n and the parent read again has the old parent components (C12_windows_replace_file_name_parent); a bare verbatim parent and the verbatim prefix named UNC are decided by oracle_c12 on every explored (path, name) pair.', NOTE_CORR),
    'C13': P(with_state(with_cons(gen_c13), ['sext', 'wext']), 'Proved in Coq for all Unix buffers and extensions (Props/C13.v): without a file name the call returns false and leaves the buffer untouched; with a file name it returns true and the bytes are everything before the name, the old stem and (for a non-empty extension) a dot and the extension, whatever separators or . segments trailed the name; read back, the components are the old ones with the last replaced by the new name, so file name = stem[.ext] and the parent is unchanged, for every separator-free extension outside the known class D13 (refuted-witness lemma C13_d13_refuted); the truncation point is a UTF-8 character boundary and the result valid UTF-8 (no panic in the String twin). The last sentence of the property is a theorem too: the transcription of std::path::PathBuf::_set_extension and the model are the same function on every buffer and extension (C13_std_bytes, StdSetExt.v); the transcription is diffed against the real std on every explored case (pair.c13). For Windows the byte-level statement is a theorem for every prefix kind (C13_windows_none, C13_windows_bytes, C13Win.v), and so is the component-level one -- the result read again has the old components with the last replaced by the new name -- for prefix-free paths and paths with a UNC / device / drive prefix (C13_windows_components_plain, _prefixed, C13WinComps.v: a core generic in the separator test) and for paths with a verbatim prefix other than the one named UNC (C13_windows_components_verbatim, C13WinVerb.v: the same core for either setting of the normalisation flag); only that last class is left to oracle_c13.', NOTE_CORR),
    'C14': P(with_state(with_cons(gen_c14, same=True), ALL_FOCUS, sched=True, fam_filter=lambda f: '8' in f), 'Proved in Coq (Props/C14.v): utf8_valid is the RFC 3629 chain of steps; validity is preserved by concatenation and by cutting next to an ASCII byte; Unix push/extend keep buffers valid; file name, stem and extension of a valid Unix path are valid; under ANY schedule of front and back steps of the generic core parser (ASCII separators: Unix and the Windows body) on a valid UTF-8 window every later window -- what as_str of the partially consumed iterator shows -- and every normal name handed out is valid UTF-8 (C14_sched_valid, C14_unix_sched_valid), hence also parent and the remainder of strip_prefix (C14_unix_parent_valid, C14_unix_strip_prefix_valid); for the Windows iterator as a whole the prefix slice and what follows it are valid too, because every alternative of the prefix grammar stops next to an ASCII byte or at the end (C14_windows_prefix_valid), so every window, prefix and normal name under any schedule is valid (C14_windows_sched_valid); the set_extension truncation point is a character boundary and its result valid (no String::truncate panic). The faithfulness half (same bytes and outcome as the byte API) is decided by running every UTF-8 family next to the byte family on every explored case (same.*), the harness re-validating every &str it receives; conversions succeed exactly on valid UTF-8 (c14c).', NOTE_CORR),
    'C15': P(with_state(with_cons(gen_c15, same=True), ALL_FOCUS, sched=True, fam_filter=lambda f: f[0] in 'tp'), 'PARTIAL. Proved: derive selects Windows exactly when the bytes start with a backslash or the grammar specification finds a prefix (Props/C15.v C15_derive); the dispatch table regenerated from src/typed/** and src/platform.rs on every run satisfies forwards-to-same-method / re-wraps-same-variant (translator obligations). The dispatch theorem is about a regex-extracted table, not about the semantics of match or of the impl_typed_fn! macro. NOT proved: that every typed / platform operation gives the same answer as the wrapped one -- in the model the typed layer is a two-arm match by definition; that sentence is decided by diffing every typed/platform family against the byte family of its encoding on every explored case, variant tags included.', NOTE_CORR, technique='machine-checked proof in Coq 8.16.1 for the part named in level_claimed.text; the remainder of the property is decided by differential correspondence on explored cases only (stated in level_note)', level='translation_validation'),
    'C16': P(with_state(with_cons(gen_unary('c16', fam_filter=lambda f: f in ('u', 'w', 'u8', 'w8', 'tu', 'tw', 't8u', 't8w', 'tbu', 'tbw', 'tb8u', 'tb8w'))), ['push', 'clear'], sched=True), 'Encoding conversion: model of with_encoding(_checked) tied to the code in both directions and for UTF-8/typed forms; the property itself (same bytes to the own encoding, kinds and names kept, prefix dropped, rootedness, checked = unchecked and valid, failure on forbidden bytes) is evaluated over the specifications by oracle_c16 on every explored case; D9, D12, D14 are the known classes. Proved for all inputs (Props/C16.v): same encoding = same bytes; a Unix path whose names are file names in both encodings converts to a Windows path with the same kinds and names; a prefix-free Windows path converts to a Unix path with the same kinds and names; the round trip is an equal path; the checked Unix->Windows conversion succeeds with exactly the unchecked result, which is valid, and fails whenever a name holds a byte Windows forbids; D9 D12 D14 as refuted-witness lemmas. A Windows source with a UNC / device / drive prefix followed by a rooted rest converts to a Unix path with exactly the components of the rest, and after a UNC or device prefix the rest is always rooted (C16_windows_prefixed_to_unix, C16_windows_nondisk_to_unix); a source with a verbatim prefix followed by a root becomes a rooted Unix path that keeps its components when none of them is a . (C16_windows_verbatim_to_unix). Bare prefixes and the Windows->Unix checked form are decided on explored cases only.', NOTE_CORR),
    'C17': P(with_state(with_cons(gen_c17), ['pushc', 'push', 'sfn'], sched=True), 'Validity predicate vs the forbidden-byte tables (regenerated from the source), all 256 byte values in each position. Proved for all inputs (Props/C17.v): a path is valid exactly when every component of its specification decomposition is (both encodings), a normal name is valid iff it holds no forbidden byte, the InvalidFilename verdict of the checked operations agrees with the predicate, the tables are the documented sets; for the UTF-8 twins, which test the CHARACTERS of a name against tables of chars: on well-formed UTF-8 the character verdict equals the byte verdict for every ASCII table, and the regenerated tables are ASCII (C17_utf8_chars, C17_tables_ascii, Utf8Chars.v).', NOTE_CORR),
    'C18': P(with_state(with_cons(gen_c18), ALL_FOCUS, sched=True), 'PARTIAL. Proved (Props/C18.v): the loops of the model terminate by themselves (fuel beyond the input length is irrelevant; every front step strictly shortens the input), the Windows parser never slices outside its input in any reachable state, pop truncates within bounds; C13 adds the set_extension character-boundary theorem. NOT proved: absence of panics in the Rust code itself (slice indexing, usize arithmetic, String::truncate are modelled only where a theorem names them), allocation failure, stack depth, run time. Those are decided by running every operation under catch_unwind and a watchdog, in release and debug builds, on the explored cases and on long inputs.', 'Panic-freedom of the implementation is observed, not proved; the model is total by construction, so model totality says nothing by itself. Trusted: Coq kernel, extraction, harness (catch_unwind, watchdog), driver.', impl_only_gen=gen_c18_impl_only, debug_build=True, oracle='nopanic', technique='machine-checked proof in Coq 8.16.1 for the part named in level_claimed.text; the remainder of the property is decided by differential correspondence on explored cases only (stated in level_note)', level='exploration'),
    'C19': P(with_state(with_cons(gen_c19), ALL_FOCUS, sched=True), 'PARTIAL. Proved (Props/C19.v): utf8_valid is the RFC 3629 chain, the Gallina lossy decoding always yields valid UTF-8 and is the identity on valid input; to_str / to_string_lossy / Display of the implementation are compared with these definitions on every explored case. NOT proved: the round trips through Box / Rc / Arc / Cow / OsStr / std::path and the invariance of eq / ord / hash under clone and conversion -- in the model every wrapper is the identity on list byte, so a theorem there would be vacuous; they are unsafe pointer casts at run time. Those sentences are decided by the harness running every conversion chain on explored inputs.', 'The pointer-level conversions are runtime facts no Gallina model exhibits; evidence for them is differential only. Trusted: Coq kernel, extraction, harness, driver.', technique='machine-checked proof in Coq 8.16.1 for the part named in level_claimed.text; the remainder of the property is decided by differential correspondence on explored cases only (stated in level_note)', level='exploration'),
    'C20': P(with_state(with_cons(gen_c20), ['push', 'pop', 'sext', 'sfn'], sched=True), 'PARTIAL. Proved (Coq, vm_compute over a finite table regenerated from src/ on every run): every cfg / cfg_attr / cfg! occurrence the extractor finds is classified, and the only one that mentions feature std negatively is the crate-level no_std attribute, so no item has a body selected by the absence of std (obligation cfg_std_gates_positive; GenSpec.gates_ok_meaning states what the boolean means). NOT proved: that the two builds return identical results -- the Gallina model has no feature parameter, so no theorem can state it. That sentence is decided by building the harness with and without default features and diffing both transcripts against the one model and against each other on the explored cases.', 'The theorem is about a regex-extracted table (tools/translate.py is trusted; an unrecognised construct becomes PUnknown and fails the obligation). The behavioural claim is differential testing of two builds on explored cases, not a proof. Trusted: Coq kernel, translator, harness, driver.', builds=['std', ''], oracle='none', technique='machine-checked proof in Coq 8.16.1 for the part named in level_claimed.text; the remainder of the property is decided by differential correspondence on explored cases only (stated in level_note)', level='translation_validation'),
}
