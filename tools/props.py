"""Per-property configuration: case generators, non-triviality rule, explanations."""
import os, json, re
from gen import *

ROOT = os.path.dirname(os.path.dirname(os.path.abspath(__file__)))

TRUSTED_BASE = [
    'Coq 8.16.1 kernel (coqc, full .vo build; vm_compute used, native_compute not used)',
    'axioms: none (every property theorem prints "Closed under the global context"; checked on every run)',
    'extraction: Coq extraction plugin with ExtrOcamlBasic only (its Extract Inductive for bool, option, unit, list, prod, sumbool, sumor; no Extract Constant of ours); OCaml 4.13.1 ocamlfind ocamlopt',
    'driver/driver.ml (parsing and printing of the value text format only)',
    'harness/ (Rust, public API of typed-path only, rebuilt against /repo on every run) and tools/*.py (generation, diff, verdict)',
    'correspondence is differential testing: agreement of model and code is established on the explored cases only',
    'modelled, not verified: the Rust source text; rustc semantics of derive(PartialEq, Ord, Hash), match, slice and iterator primitives as transcribed in the model',
]
COMMON_ASSUMPTIONS = [
    'the hand-written Gallina model agrees with the code outside the explored cases (checked on them on every run)',
    'the value encoders/decoders of Run.v are faithful (exercised on every case: the model must pass its own oracle through them)',
]


def corpus_cases(pid):
    p = os.path.join(ROOT, 'corpus', pid + '.cases')
    if not os.path.exists(p):
        return []
    return [l.rstrip('\n') for l in open(p) if l.strip() and not l.startswith('#')]


def explain(pid, case):
    parts = case.split('\t')
    def show(a):
        if a.startswith('x'):
            try:
                return repr(bytes.fromhex(a[1:]))
            except ValueError:
                return a
        return a
    return {'op': parts[0], 'args': [show(a) for a in parts[1:]]}


def nontrivial_default(case, impl):
    """a case is non-trivial when its first argument parses to at least two path segments"""
    parts = case.split('\t')
    if len(parts) < 2 or not parts[1].startswith('x'):
        return False
    try:
        b = bytes.fromhex(parts[1][1:])
    except ValueError:
        return False
    return len(usegs(b, b'/\\')) >= 2


def count_nontrivial(pid, recs):
    f = PROPS[pid].get('nontrivial', nontrivial_default)
    seen = set()
    for case, impl, rl in recs:
        if case in seen:
            continue
        if f(case, impl):
            seen.add(case)
    return len(seen)


# ---------------------------------------------------------------- C01

def gen_c01(tier, rng):
    cases, dist = [], {'len': {}, 'ncomp': {}, 'stream': {}}
    def add(s, sc, stream):
        cases.append('c01\t%s\t%s' % (hx(s), hx(sc)))
        hist(dist['len'], min(len(s), 64)); hist(dist['stream'], stream)
    k6, k4 = (5, 8) if tier == 'quick' else (6, 10)
    # bounded exhaustive: 6-byte alphabet, all schedules of length ncomps+1 (capped)
    for s in strings_upto([0x2f, 0x2e, 0x61, 0x62, 0x00, 0xff], k6):
        n = len(usegs(s)) + 1
        hist(dist['ncomp'], n - 1)
        for sc in scheds(min(n + 1, 5)):
            add(s, sc, 'exh6')
    for s in strings_upto([0x2f, 0x2e, 0x61], k4):
        if len(s) <= k6:
            continue
        n = len(usegs(s)) + 1
        hist(dist['ncomp'], n - 1)
        for sc in scheds(min(n + 1, 6)):
            add(s, sc, 'exh3')
    # structured random, longer
    nrand = 20000 if tier == 'quick' else 300000
    for _ in range(nrand):
        s = random_unix_path(rng, 8)
        n = len(usegs(s)) + 2
        sc = bytes(rng.randint(0, 1) for _ in range(n + 1))
        add(s, sc, 'random')
    for _ in range(nrand // 10):
        s = random_bytes(rng, 16)
        sc = bytes(rng.randint(0, 1) for _ in range(len(usegs(s)) + 3))
        add(s, sc, 'malformed')
    return cases, dist


PROPS = {
    'C01': {
        'gen': gen_c01,
        'level': 'proof',
        'rule': 'all byte strings up to length k over {/ . a b NUL 0xFF} (k=5 quick, 6 thorough) and up to length 8/10 over {/ . a}, '
                'each with all front/back schedules of length #components+2 (capped at 2^5 / 2^6), plus structured random and malformed '
                'streams; non-trivial = the path has at least two non-empty segments; distinct by (path, schedule)',
        'exhaustive_note': 'strings <= k over the 6-byte alphabet x all schedules (not the whole input space: exhaustive=false)',
        'assumptions': ['std::path of the toolchain the harness is compiled with is the oracle; it is run on every case'],
        'level_text': 'Proved in Coq for all byte strings and all front/back schedules: the model of the Unix parser yields exactly the pops of the declarative component list ucomps, every remainder re-parses to the un-consumed middle, has_root/is_absolute/try_from agree with it (C01_holds, C01_interleave, C01_components; closed under the global context). The model is tied to the code, and ucomps to real std::path, by running both on every explored case.',
        'level_note': 'Trusted: Coq kernel; extraction (ExtrOcamlBasic); driver/harness glue; the correspondence is sampled (bounded-exhaustive + random), so agreement of model and code, and of ucomps and std, is established on the explored cases only. std::path is not transcribed into Coq yet: ucomps is its specification.',
        'design_ref': 'DESIGN.md 5/C01',
    },
}
