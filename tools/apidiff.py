#!/usr/bin/env python3
"""Which part of the crate's public surface does the correspondence harness (tie A) never call?

Every batch of seeded changes that was first missed (DESIGN.md B.5) was missed for the same reason: the
changed function was never called by the harness, or never in the state the change needed.  The second
kind needs imagination; the first kind can be listed mechanically, which is what this script does:

  * every `pub fn` (and every method of a public trait) in /repo/src outside `#[cfg(test)]`, by name,
    against every `.name(` / `::name(` in /verif/harness/src;
  * every trait implemented in /repo/src with the number of impls, against a textual hint of its use.

The comparison is by *name*, so a method called for one family and not for another is not found here; the
harness instantiates its operations through macros over all 18 families, which is what makes the name level
meaningful.  The residue is written between the APIDIFF markers of DESIGN.md (`--write`) or printed.
Internal names (parser combinators of the non-public `parser` modules, parser states) are listed separately:
they are reachable only through the public functions above them."""
import collections
import glob
import os
import re
import sys

REPO = os.environ.get('VERIF_REPO', '/repo')
ROOT = os.path.dirname(os.path.dirname(os.path.abspath(__file__)))

INTERNAL_FILES = ('common/non_utf8/parser.rs', 'unix/non_utf8/components/parser.rs', 'windows/non_utf8/components/parser.rs')
# why a name that is never called is acceptable (kept short; anything not listed here is reported as a gap)
REASONS = {
    'rsplit_file_at_dot': 'private helper of file_stem / extension (driven through them)',
    'iter_after': 'private helper of starts_with / ends_with / strip_prefix (driven through them)',
    'fmt': 'Display / Debug are driven through format!',
    'hash': 'driven through the recording hasher (feed)',
    'eq': 'driven through ==', 'ne': 'driven through !=', 'cmp': 'driven', 'partial_cmp': 'driven',
    'lt': 'driven through <', 'le': 'driven through <=', 'gt': 'driven through >', 'ge': 'driven through >=',
}


def public_names():
    pub = collections.defaultdict(set)
    for f in glob.glob(os.path.join(REPO, 'src', '**', '*.rs'), recursive=True):
        rel = os.path.relpath(f, os.path.join(REPO, 'src'))
        src = re.split(r'#\[cfg\(test\)\]', open(f).read())[0]
        for m in re.finditer(r'^\s*pub\s+(?:const\s+)?(?:unsafe\s+)?fn\s+([a-zA-Z_0-9]+)', src, re.M):
            pub[m.group(1)].add(rel)
        if re.search(r'pub trait', src):
            for m in re.finditer(r'^\s{4}fn\s+([a-zA-Z_0-9]+)\s*[<(]', src, re.M):
                pub[m.group(1)].add(rel + ' (trait)')
    return pub


def harness_text():
    return ''.join(open(f).read() for f in sorted(glob.glob(os.path.join(ROOT, 'harness', 'src', '*.rs'))))


def impls():
    cnt = collections.Counter()
    for f in glob.glob(os.path.join(REPO, 'src', '**', '*.rs'), recursive=True):
        src = re.split(r'#\[cfg\(test\)\]', open(f).read())[0]
        for m in re.finditer(r'^\s*impl(?:<[^{]*?>)?\s+([A-Za-z_:]+)(?:<[^{]*?>)?\s+for\s', src, re.M):
            cnt[m.group(1).split('::')[-1]] += 1
    return cnt


HINT = {'AsRef': 'as_ref', 'Borrow': 'borrow()', 'Deref': '.', 'From': 'from(', 'FromStr': 'parse', 'FromIterator': 'collect',
        'Extend': 'extend(', 'IntoIterator': 'into_iter', 'Display': 'format!', 'Debug': '{:?}', 'Hash': 'feed(', 'Ord': 'cmp(',
        'PartialOrd': 'partial_cmp', 'PartialEq': '==', 'Eq': '==', 'Default': 'default()', 'Clone': 'clone()',
        'ToOwned': 'to_owned', 'TryFrom': 'try_from', 'Iterator': 'next()', 'DoubleEndedIterator': 'next_back',
        'FusedIterator': 'not_fused', 'TryAsRef': 'try_as_ref', 'Error': 'Error', 'Component': 'Component',
        'Components': 'components()', 'Encoding': 'Encoding', 'Sealed': None}


def report():
    pub = public_names()
    h = harness_text()
    called = set(re.findall(r'[.:]([a-zA-Z_0-9]+)\s*(?:::<[^>]*>)?\s*\(', h))
    never = sorted(n for n in pub if n not in called)
    internal = [n for n in never if all(any(x.startswith(i) for i in INTERNAL_FILES) for x in pub[n])]
    explained = [n for n in never if n in REASONS and n not in internal]
    gaps = [n for n in never if n not in internal and n not in explained]
    out = []
    out.append(f'{len(pub)} public function names in /repo/src; {len(pub) - len(never)} are called by the harness; '
               f'{len(internal)} belong to non-public parser modules; {len(explained)} are private helpers driven through '
               f'their callers; **{len(gaps)} are not driven by any check**:')
    out.append('')
    if gaps:
        for n in gaps:
            out.append(f'* `{n}` — {", ".join(sorted(pub[n]))[:140]}')
    else:
        out.append('* (none)')
    out.append('')
    out.append('Internal names reached only through public functions: ' + ', '.join(f'`{n}`' for n in internal) + '.')
    out.append('')
    out.append('| trait | impls in the crate | hint searched in the harness | occurrences |')
    out.append('|---|---|---|---|')
    zero = []
    for t, n in sorted(impls().items()):
        hint = HINT.get(t, t)
        if hint is None:
            continue
        k = h.count(hint)
        out.append(f'| {t} | {n} | `{hint}` | {k} |')
        if k == 0:
            zero.append(t)
    out.append('')
    out.append('Traits with impls and no use in the harness: ' + (', '.join(zero) if zero else 'none') + '.')
    return '\n'.join(out), gaps, zero


def main():
    text, gaps, zero = report()
    if '--write' in sys.argv:
        p = os.path.join(ROOT, 'DESIGN.md')
        s = open(p).read()
        a, b = '<!-- APIDIFF:BEGIN -->', '<!-- APIDIFF:END -->'
        if a not in s:
            sys.exit('DESIGN.md has no APIDIFF markers')
        s = s[:s.index(a) + len(a)] + '\n' + text + '\n' + s[s.index(b):]
        open(p, 'w').write(s)
        print(f'DESIGN.md updated: {len(gaps)} undriven names, {len(zero)} unused traits')
    else:
        print(text)


if __name__ == '__main__':
    main()
