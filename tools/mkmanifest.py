#!/usr/bin/env python3
"""Writes MANIFEST.json from tools/props.py (claimed properties) and tools/manifest_meta.json."""
import json, os, sys
ROOT = os.path.dirname(os.path.dirname(os.path.abspath(__file__)))
sys.path.insert(0, os.path.join(ROOT, 'tools'))
import props
meta = json.load(open(os.path.join(ROOT, 'tools', 'manifest_meta.json')))
all_ids = [json.loads(l)['id'] for l in open(os.path.join(ROOT, 'properties.jsonl'))]
checks = []
for pid in all_ids:
    if pid not in props.PROPS:
        continue
    p = props.PROPS[pid]
    checks.append({
        'property_id': pid,
        'quick_cmd': f'./check {pid} quick',
        'thorough_cmd': f'./check {pid} thorough',
        'evidence_file': f'/verif/evidence/{pid}.json',
        'replay_cmd_template': f'./check {pid} --replay {{path}}',
        'engine': 'coq-model+correspondence',
        'level_claimed': {'category': p.get('level', 'proof'), 'text': p['level_text'], 'design_ref': p.get('design_ref', 'DESIGN.md section 5')},
        'level_note': p['level_note'],
        'technique': p.get('technique', 'machine-checked proof in Coq 8.16.1 about an executable Gallina model + differential correspondence of the extracted model against the code'),
    })
na = [{'property_id': pid, 'reason': meta['not_yet'].get(pid, 'check not built yet in this phase; see DESIGN.md section 9')}
      for pid in all_ids if pid not in props.PROPS]
m = {
    'version': 1,
    'setup_cmd': './setup.sh',
    'hooks': meta['hooks'],
    'engines': [{'name': 'coq-model+correspondence', 'path': '/verif/coq, /verif/harness, /verif/driver, /verif/tools',
                 'serves_properties': [c['property_id'] for c in checks],
                 'kind_free_text': 'Coq 8.16.1 theorems about a hand-written executable Gallina model; model extracted to OCaml and diffed against a Rust harness over the public API on every run; translator-generated tables'}],
    'checks': checks,
    'notes': meta['notes'],
    'not_applicable': na,
}
json.dump(m, open(os.path.join(ROOT, 'MANIFEST.json'), 'w'), indent=1)
print('MANIFEST.json:', len(checks), 'checks,', len(na), 'not claimed')
