#!/usr/bin/env python3
"""Writes the detection matrix of the seeded changes (seeded/<id>/meta.json + detection.json) as markdown
   between the markers <!-- MATRIX:BEGIN --> and <!-- MATRIX:END --> of DESIGN.md."""
import json, os, re
ROOT = os.path.dirname(os.path.dirname(os.path.abspath(__file__)))
rows = []
for d in sorted(os.listdir(os.path.join(ROOT, 'seeded'))):
    mp = os.path.join(ROOT, 'seeded', d, 'meta.json')
    dp = os.path.join(ROOT, 'seeded', d, 'detection.json')
    if not os.path.exists(mp):
        continue
    m = json.load(open(mp))
    det = json.load(open(dp)) if os.path.exists(dp) else {}
    what = re.sub(r'\s+', ' ', (m.get('summary') or m.get('what') or ''))[:150].replace('|', '/')
    needs = re.sub(r'\s+', ' ', (m.get('what_it_needs_to_manifest') or m.get('needs') or ''))[:130].replace('|', '/')
    for p, v in det.items():
        kind = {'failing-input': 'failing input replayed', 'broken-obligation': 'tie broken, no-failing-input-found'}.get(v.get('replay_kind'), str(v.get('replay_kind')))
        res = 'caught' if v.get('exit') == 1 and v.get('violation_line') else 'MISSED'
        rc = v.get('replay_case')
        rcs = ''
        if isinstance(rc, dict) and 'op' in rc:
            rcs = rc['op']
        elif isinstance(rc, dict) and 'name' in rc:
            rcs = rc.get('kind', '') + ':' + rc['name']
        rows.append(f'| {d} | {what} | {needs} | ./check {p} quick | {res}: {kind} ({rcs}) |')
out = ['| id | change | needs | check | outcome |', '|---|---|---|---|---|'] + rows
p = os.path.join(ROOT, 'DESIGN.md')
s = open(p).read()
a, b = '<!-- MATRIX:BEGIN -->', '<!-- MATRIX:END -->'
assert a in s and b in s
s = s[:s.index(a) + len(a)] + '\n' + '\n'.join(out) + '\n' + s[s.index(b):]
open(p, 'w').write(s)
print(len(rows), 'rows')
